//! C18 — every submitted task runs exactly once; ordered pipelines keep their order.
//! Runs the real WorkStealingQueue / WorkStealingExecutor / FiberPool / Pipeline and logs what
//! happened; TLC judges the log against spec/Executor.tla and spec/ParallelMap.tla
//! (Trace_Executor.tla).
//!
//! modes
//!   queue   seeded random histories on the public WorkStealingQueue API (push_local / pop_local /
//!           steal / balance / len), single thread: deterministic
//!   exec    real executors (tokio runtime): worker counts 1..4, capacities 1..4 and larger, task
//!           counts around the capacity and beyond 100 (balance() trigger), mixed priorities,
//!           non-stealable tasks; ends when every accepted task finished or nothing happened for the
//!           grace period
//!   par     FiberPool::parallel_map / parallel_for_each / parallel_reduce / spawn_batch,
//!           Pipeline::execute_single / process_batch with failing and slow stage functions
use serde_json::{json, Value};
use std::future::Future;
use std::pin::Pin;
use std::sync::atomic::{AtomicU64, Ordering};
use std::sync::{Arc, Mutex};
use std::time::{Duration, Instant};
use zipora::concurrency::pipeline::{MapStage, PipelineConfig};
use zipora::concurrency::{FiberPool, FiberPoolConfig, Pipeline, Task, WorkStealingExecutor, WorkStealingQueue};
use zipora::error::{Result as ZResult, ZiporaError};
use zv::*;

type Log = Arc<Mutex<Vec<Value>>>;

struct T {
    id: u32,
    prio: u8,
    stealable: bool,
    log: Log,
    last: Arc<AtomicU64>,
    yield_inside: bool,
}
fn now_ms(t0: Instant) -> u64 {
    t0.elapsed().as_millis() as u64
}
static T0: Mutex<Option<Instant>> = Mutex::new(None);
fn t0() -> Instant {
    let mut g = T0.lock().unwrap();
    *g.get_or_insert_with(Instant::now)
}
impl Task for T {
    fn execute(self: Box<Self>) -> Pin<Box<dyn Future<Output = ZResult<()>> + Send>> {
        Box::pin(async move {
            self.log.lock().unwrap().push(json!({"op":"exec_start","id":self.id}));
            self.last.store(now_ms(t0()), Ordering::SeqCst);
            if self.yield_inside {
                tokio::task::yield_now().await;
            }
            self.log.lock().unwrap().push(json!({"op":"exec_end","id":self.id}));
            self.last.store(now_ms(t0()), Ordering::SeqCst);
            Ok(())
        })
    }
    fn priority(&self) -> u8 {
        self.prio
    }
    fn is_stealable(&self) -> bool {
        self.stealable
    }
}

/// identify a task popped from a queue by running it to completion on the spot (its body only logs)
fn run_now(task: Box<dyn Task>) {
    let fut = task.execute();
    let rt = tokio::runtime::Builder::new_current_thread().build().unwrap();
    let _ = rt.block_on(fut);
}

// ---------------------------------------------------------------- queue histories

fn mode_queue(a: &Args) {
    let mut tr = Tracer::new(&a.out, "exq");
    let rng0 = Rng::new(a.seed).derive("queue");
    let runs = a.get_u64("n", if a.thorough() { 4000 } else { 500 });
    for run in 0..runs {
        let mut rng = rng0.derive(&format!("{run}"));
        let cap = *rng.pick(&[1usize, 2, 3, 4, 8]);
        let q = WorkStealingQueue::new(0, cap);
        tr.reset("executor", "wsq", json!({"fam":"wsq","variant":format!("cap{cap}"),"cap":cap}));
        let log: Log = Arc::new(Mutex::new(vec![]));
        let last = Arc::new(AtomicU64::new(0));
        let mut next_id = 1u32;
        let steps = rng.range(4, 40);
        for _ in 0..steps {
            match rng.below(100) {
                0..=44 => {
                    let id = next_id;
                    next_id += 1;
                    let prio = rng.below(3) as u8;
                    let stealable = rng.chance(3, 4);
                    let t = Box::new(T { id, prio, stealable, log: log.clone(), last: last.clone(), yield_inside: false });
                    tr.ev(json!({"op":"offer","id":id,"prio":prio,"stealable":stealable}));
                    let ok = q.push_local(t).is_ok();
                    tr.ev(json!({"op":"offer_result","id":id,"ok":ok}));
                }
                45..=64 | 65..=79 => {
                    let via = if rng.chance(1, 2) { "pop_local" } else { "steal" };
                    let r = if via == "pop_local" { q.pop_local() } else { q.steal() };
                    match r {
                        Some(t) => {
                            let before = log.lock().unwrap().len();
                            run_now(t);
                            let evs: Vec<Value> = log.lock().unwrap()[before..].to_vec();
                            let id = evs.first().map(|e| e["id"].clone()).unwrap_or(json!(0));
                            tr.ev(json!({"op":"take","via":via,"id":id}));
                            tr.ev(json!({"op":"exec_end","id":id}));
                        }
                        None => tr.ev(json!({"op":"take_none","via":via})),
                    }
                }
                80..=91 => {
                    q.balance();
                    tr.ev(json!({"op":"shuffle"}));
                }
                _ => tr.ev(json!({"op":"queued","n":q.len()})),
            }
        }
        // drain: everything pushed must come out exactly once (pop_local, then steal)
        loop {
            let r = q.pop_local().map(|t| ("pop_local", t)).or_else(|| q.steal().map(|t| ("steal", t)));
            match r {
                Some((via, t)) => {
                    let before = log.lock().unwrap().len();
                    run_now(t);
                    let id = log.lock().unwrap()[before]["id"].clone();
                    tr.ev(json!({"op":"take","via":via,"id":id}));
                    tr.ev(json!({"op":"exec_end","id":id}));
                }
                None => break,
            }
        }
        tr.ev(json!({"op":"final","queued":q.len(),"idle":q.is_empty(),"executed":log.lock().unwrap().len() / 2,"pending":0,"queue_only":true}));
    }
    tr.close();
    write_summary(&a.out, &json!({"mode":"queue","events":tr.total_events,"runs":tr.runs}));
}

// ---------------------------------------------------------------- real executor

struct ExecCfg {
    workers: usize,
    cap: usize,
    tasks: usize,
    burst: bool,
    yield_inside: bool,
}

async fn exec_one(cfg: &ExecCfg, rng: &mut Rng, grace_ms: u64) -> Vec<Value> {
    let mut events = vec![];
    let ex = match WorkStealingExecutor::new(cfg.workers, cfg.cap) {
        Ok(e) => e,
        Err(_) => return vec![json!({"op":"note","what":"executor construction refused"})],
    };
    let log: Log = Arc::new(Mutex::new(vec![]));
    let last = Arc::new(AtomicU64::new(now_ms(t0())));
    // let the workers spin a little on a fresh executor (total_executed = 0: balance() runs every iteration)
    tokio::time::sleep(Duration::from_millis(2)).await;
    let mut accepted = 0usize;
    for i in 0..cfg.tasks {
        let id = i as u32 + 1;
        let prio = rng.below(3) as u8;
        let stealable = rng.chance(3, 4);
        let t = Box::new(T { id, prio, stealable, log: log.clone(), last: last.clone(), yield_inside: cfg.yield_inside });
        // the offer is logged before the call: a worker may start the task before submit() returns
        log.lock().unwrap().push(json!({"op":"offer","id":id,"prio":prio,"stealable":stealable}));
        let ok = ex.submit(t).is_ok();
        log.lock().unwrap().push(json!({"op":"offer_result","id":id,"ok":ok}));
        if ok {
            accepted += 1;
        }
        last.store(now_ms(t0()), Ordering::SeqCst);
        if !cfg.burst && rng.chance(1, 3) {
            tokio::task::yield_now().await;
        }
    }
    // wait until every accepted task finished, or nothing has happened for the grace period
    loop {
        let done = log.lock().unwrap().iter().filter(|e| e["op"] == "exec_end").count();
        if done >= accepted {
            break;
        }
        if now_ms(t0()).saturating_sub(last.load(Ordering::SeqCst)) > grace_ms {
            break;
        }
        tokio::time::sleep(Duration::from_millis(2)).await;
    }
    // settle: the worker bumps its counters right after the task body returned
    for _ in 0..50 {
        if ex.is_idle() && ex.stats().total_executed as usize >= accepted {
            break;
        }
        tokio::time::sleep(Duration::from_millis(2)).await;
    }
    let evs: Vec<Value> = log.lock().unwrap().clone();
    let done = evs.iter().filter(|e| e["op"] == "exec_end").count();
    // take = the first poll of the task body
    for e in evs {
        if e["op"] == "exec_start" {
            events.push(json!({"op":"take","via":"worker","id":e["id"]}));
        } else {
            events.push(e);
        }
    }
    events.push(json!({"op":"final","queued":ex.total_queued(),"idle":ex.is_idle(),"executed":ex.stats().total_executed,"pending":accepted - done.min(accepted),"queue_only":false}));
    let _ = ex.shutdown().await;
    events
}

fn mode_exec(a: &Args) {
    let mut tr = Tracer::new(&a.out, "exe");
    tr.max_events = 4000;
    let rng0 = Rng::new(a.seed).derive("exec");
    let grace = a.get_u64("grace_ms", 1500);
    let mut cfgs: Vec<ExecCfg> = vec![];
    let reps = if a.thorough() { 6 } else { 2 };
    for workers in 1..=4usize {
        for cap in [1usize, 2, 3, 4, 16, 256] {
            for &tasks in &[1usize, cap, cap + 1, 2 * cap + 1, 7, 40] {
                for r in 0..reps {
                    cfgs.push(ExecCfg { workers, cap, tasks, burst: r % 2 == 0, yield_inside: r % 3 == 1 });
                }
            }
        }
        // beyond 100 executed tasks: the periodic balance() of a busy executor
        for &tasks in &[130usize, 260] {
            cfgs.push(ExecCfg { workers, cap: 256, tasks, burst: true, yield_inside: false });
            cfgs.push(ExecCfg { workers, cap: 8, tasks, burst: false, yield_inside: true });
        }
    }
    let rt = tokio::runtime::Builder::new_multi_thread().worker_threads(4).enable_all().build().unwrap();
    let mut stuck = 0usize;
    for (i, cfg) in cfgs.iter().enumerate() {
        let mut rng = rng0.derive(&format!("{i}"));
        let events = rt.block_on(exec_one(cfg, &mut rng, grace));
        if events.last().map_or(false, |e| e["pending"].as_u64().unwrap_or(0) > 0) {
            stuck += 1;
        }
        tr.reset("executor", "wse", json!({"fam":"wse","variant":format!("w{}", cfg.workers),"workers":cfg.workers,"cap":cfg.cap,"tasks":cfg.tasks,"burst":cfg.burst,"yield_inside":cfg.yield_inside}));
        for e in events {
            tr.ev(e);
        }
    }
    tr.close();
    write_summary(&a.out, &json!({"mode":"exec","configs":cfgs.len(),"stuck_configs":stuck,"events":tr.total_events,"runs":tr.runs}));
}

// ---------------------------------------------------------------- parallel map / reduce / pipelines

/// the stage function of every "par" run: x -> 2x+1, failing on the listed inputs (the specification
/// knows the same definition: ParallelMap.tla F(x))
fn stage(x: u32, fail: &[u32]) -> ZResult<u32> {
    if fail.contains(&x) {
        Err(ZiporaError::invalid_data("stage failure requested by the harness"))
    } else {
        Ok(2 * x + 1)
    }
}

fn res_json(r: &ZResult<Vec<u32>>) -> (bool, Value) {
    match r {
        Ok(v) => (true, json!(v)),
        Err(_) => (false, json!([])),
    }
}

fn mode_par(a: &Args) {
    let mut tr = Tracer::new(&a.out, "exp");
    let rng0 = Rng::new(a.seed).derive("par");
    let rt = tokio::runtime::Builder::new_multi_thread().worker_threads(4).enable_all().build().unwrap();
    let runs = a.get_u64("n", if a.thorough() { 1500 } else { 250 });
    let _guard = rt.enter();
    for run in 0..runs {
        let mut rng = rng0.derive(&format!("{run}"));
        let n = *rng.pick(&[0usize, 1, 2, 3, 5, 8, 17, 40]);
        let input: Vec<u32> = (0..n).map(|_| rng.below(50) as u32).collect();
        let nfail = if rng.chance(1, 3) { rng.range(1, 2) as usize } else { 0 };
        let fail: Vec<u32> = (0..nfail).map(|_| if input.is_empty() { 3 } else { *rng.pick(&input) }).collect();
        let max_fibers = *rng.pick(&[1usize, 2, 3, 8]);
        let max_workers = *rng.pick(&[1usize, 2, 3, 7]);
        let cfgp = FiberPoolConfig { max_fibers, initial_workers: 1, max_workers, queue_capacity: 64, idle_timeout: Duration::from_secs(1) };
        tr.reset("executor", "par", json!({"fam":"par","variant":"fiber_pool","max_fibers":max_fibers,"max_workers":max_workers}));
        let pool = match FiberPool::new(cfgp) {
            Ok(p) => p,
            Err(_) => continue,
        };
        let f = fail.clone();
        let r = rt.block_on(pool.parallel_map(input.clone(), move |x| stage(x, &f)));
        let (ok, out) = res_json(&r);
        tr.ev(json!({"op":"pmap","api":"FiberPool::parallel_map","in":input,"fail":fail,"ok":ok,"out":out}));
        // for_each: every input processed exactly once
        let seen: Arc<Mutex<Vec<u32>>> = Arc::new(Mutex::new(vec![]));
        let (s2, f) = (seen.clone(), fail.clone());
        let r = rt.block_on(pool.parallel_for_each(input.clone(), move |x| {
            s2.lock().unwrap().push(x);
            stage(x, &f).map(|_| ())
        }));
        let mut seen_v = seen.lock().unwrap().clone();
        seen_v.sort();
        tr.ev(json!({"op":"pforeach","in":input,"fail":fail,"ok":r.is_ok(),"seen_sorted":seen_v}));
        // reduce with a non-commutative, associative operation: concatenation of digit strings
        let items: Vec<Vec<u32>> = input.iter().map(|x| vec![*x]).collect();
        let r = rt.block_on(pool.parallel_reduce(items, vec![], |mut acc: Vec<u32>, mut x: Vec<u32>| {
            acc.append(&mut x);
            Ok(acc)
        }));
        let (ok, out) = res_json(&r);
        tr.ev(json!({"op":"preduce","in":input,"ok":ok,"out":out}));
        // spawn_batch: one handle per future, results by index
        let f = fail.clone();
        let futs: Vec<_> = input.iter().map(|&x| {
            let f = f.clone();
            async move { stage(x, &f) }
        }).collect();
        let handles = pool.spawn_batch(futs);
        let nh = handles.len();
        let outs: Vec<Value> = rt.block_on(async {
            let mut v = vec![];
            for h in handles {
                v.push(match h.await {
                    Ok(x) => json!([x]),
                    Err(_) => json!([]),
                });
            }
            v
        });
        tr.ev(json!({"op":"pbatch","in":input,"fail":fail,"handles":nh,"out":outs}));
        // Pipeline::process_batch / execute_single with a MapStage; slow items exceed the stage timeout
        let slow: Vec<u32> = if rng.chance(1, 4) && !input.is_empty() { vec![*rng.pick(&input)] } else { vec![] };
        let mut pc = PipelineConfig::default();
        pc.stage_timeout = Duration::from_millis(40);
        pc.enable_batching = rng.chance(1, 2);
        pc.max_in_flight = *rng.pick(&[1usize, 2, 100]);
        let p = Pipeline::new(pc.clone());
        let (f, s) = (fail.clone(), slow.clone());
        let st = MapStage::new("m".to_string(), move |x: u32| {
            if s.contains(&x) {
                std::thread::sleep(Duration::from_millis(1));
            }
            stage(x, &f)
        });
        let r = rt.block_on(p.process_batch(st, input.clone()));
        let (ok, out) = res_json(&r);
        tr.ev(json!({"op":"pmap","api":"Pipeline::process_batch","in":input,"fail":fail,"ok":ok,"out":out}));
        if let Some(&x) = input.first() {
            let f = fail.clone();
            let st = MapStage::new("s".to_string(), move |x: u32| stage(x, &f));
            let r = rt.block_on(p.execute_single(st, x)).map(|v| vec![v]);
            let (ok, out) = res_json(&r);
            tr.ev(json!({"op":"pmap","api":"Pipeline::execute_single","in":[x],"fail":fail,"ok":ok,"out":out}));
        }
    }
    tr.close();
    write_summary(&a.out, &json!({"mode":"par","events":tr.total_events,"runs":tr.runs}));
}

fn main() {
    let a = Args::parse();
    quiet_panics();
    let _ = t0();
    match a.mode.as_str() {
        "queue" => mode_queue(&a),
        "exec" => mode_exec(&a),
        "par" => mode_par(&a),
        m => {
            eprintln!("c18: unknown mode {m}");
            std::process::exit(2)
        }
    }
}
