//! C09 — compressed integer vectors return every stored value unchanged.
//! Runs the real zipora containers (IntVec<T>, UintVector, UintVecMin0, ZipIntVec, SortedUintVec),
//! logs every build / push / set / read as one NDJSON event; TLC judges the events against
//! spec/PackedSeq.tla (Trace_PackedSeq.tla).  Every integer is logged as its decimal string.
//!
//! The harness contains no model of any container: it generates inputs, calls through, and
//! projects what came back (decimal strings).  Index arithmetic is left to TLC (indices are
//! logged as limbs).
//!
//! modes:
//!   drive    input families (length class x value profile) per subject; each subject group runs
//!            in a child process so that a crash of the code under test is contained and reported
//!   group    (child of drive) one subject group
//!   replay   execute TLC-generated push/set histories (B2): --in <REPLAY json lines>; the state
//!            after every step was computed by TLC; equality pre-filter, traces judged by TLC
//!   witness  (child) execute one recorded crashing call; the parent logs the outcome as an event
//!   subjects list subject names
use serde_json::{json, Value};
use std::cell::Cell;
use std::fmt::Display;
use zipora::blob_store::{SortedUintVec, SortedUintVecBuilder, SortedUintVecConfig};
use zipora::containers::specialized::{IntVec, PackedInt, UintVector};
use zipora::containers::{UintVecMin0, ZipIntVec};
use zv::*;

// ---------------------------------------------------------------- values and domains

/// element type of a container under test: how an abstract input number (i128 inside the
/// type's range) becomes the typed value handed to the container
trait Ty: Copy + Display + 'static {
    const NAME: &'static str;
    const MIN: i128;
    const MAX: i128;
    fn cast(x: i128) -> Self;
}
macro_rules! ty {
    ($($t:ty),*) => {$(
        impl Ty for $t {
            const NAME: &'static str = stringify!($t);
            const MIN: i128 = <$t>::MIN as i128;
            const MAX: i128 = <$t>::MAX as i128;
            fn cast(x: i128) -> Self { x as $t }
        }
    )*};
}
ty!(u8, u16, u32, u64, i8, i16, i32, i64, usize);

fn idx(i: usize) -> Value {
    limbs(i as u64)
}

// ---------------------------------------------------------------- input families

const PROFILES: &[&str] = &[
    "const_lo", "const_hi", "const_rand", "sorted", "dense", "small", "full", "minmax", "outliers", "allbits", "gap", "alt",
    "arith", "runs", "hi_small", "lo_small", "tail_outlier",
];

fn rand_in(r: &mut Rng, lo: i128, hi: i128) -> i128 {
    let span = (hi - lo) as u128 + 1;
    lo + (((r.next() as u128) << 64 | r.next() as u128) % span) as i128
}

/// one input sequence of n numbers inside [lo, hi] (inputs only: TLC judges what comes back)
fn gen(profile: &str, n: usize, lo: i128, hi: i128, r: &mut Rng) -> Vec<i128> {
    let span = hi - lo;
    let zero = if lo <= 0 && hi >= 0 { 0 } else { lo };
    let clamp = |x: i128| x.max(lo).min(hi);
    let mut v = Vec::with_capacity(n);
    match profile {
        "const_lo" => v.resize(n, lo),
        "const_hi" => v.resize(n, hi),
        "const_rand" => {
            let c = rand_in(r, lo, hi);
            v.resize(n, c)
        }
        "sorted" => {
            let start = rand_in(r, lo, lo + span / 2);
            let step = ((hi - start) / (n as i128 + 1)).min(100).max(0);
            let mut x = start;
            for _ in 0..n {
                v.push(x);
                x = clamp(x + rand_in(r, 0, step));
            }
        }
        "dense" => {
            let mut x = clamp(zero + rand_in(r, 0, 50));
            for _ in 0..n {
                v.push(x);
                x = clamp(x + rand_in(r, 0, 3));
            }
        }
        "small" => {
            let range = *r.pick(&[2i128, 16, 1000]);
            let base = rand_in(r, lo, (hi - range).max(lo));
            for _ in 0..n {
                v.push(clamp(base + rand_in(r, 0, range - 1)));
            }
        }
        "full" => {
            for _ in 0..n {
                v.push(rand_in(r, lo, hi));
            }
        }
        "minmax" => {
            let c = [lo, hi, clamp(lo + 1), clamp(hi - 1), zero];
            for _ in 0..n {
                v.push(*r.pick(&c));
            }
        }
        "outliers" => {
            for _ in 0..n {
                v.push(clamp(zero + rand_in(r, 0, 15)));
            }
            if n > 0 {
                for _ in 0..(1 + n / 500) {
                    let p = r.below(n as u64) as usize;
                    v[p] = match r.below(4) {
                        0 => hi,
                        1 => clamp(hi - rand_in(r, 0, 3)),
                        2 => lo,
                        _ => rand_in(r, lo + span / 2, hi),
                    };
                }
            }
        }
        "tail_outlier" => {
            // unsorted block-structured data: every block of 64 sits around its own base (overall range
            // wide, in-block offsets tiny); the only large in-block offsets are in the trailing PARTIAL
            // block (the last n % 64 / n % 128 elements) and in the very last element
            let step = (span / 64).max(1).min(70_000);
            for k in 0..n {
                let blk = (k / 64) as i128;
                let base = lo + ((blk * 7919) % 61) * step;
                v.push(clamp(base + rand_in(r, 0, 15)));
            }
            if n > 0 {
                let tail = n % 64;
                if tail > 1 {
                    let p = n - 1 - (r.below(tail as u64 - 1) as usize);
                    v[p] = clamp(v[p] + span / 2);
                }
                v[n - 1] = match r.below(3) {
                    0 => hi,
                    1 => clamp(lo + span / 2 + rand_in(r, 0, 1000)),
                    _ => clamp(v[n - 1] + span / 3),
                };
            }
        }
        "allbits" => {
            // the upper half of the range (top bit set for unsigned types); signed: both extremes
            for k in 0..n {
                if lo < 0 && k % 2 == 1 {
                    v.push(rand_in(r, lo, lo + span / 4));
                } else {
                    v.push(rand_in(r, hi - span / 4, hi));
                }
            }
        }
        "gap" => {
            // strictly increasing (while the type allows) with one giant gap in the middle
            let base = clamp(zero + rand_in(r, 0, 10));
            let k = if n == 0 { 0 } else { r.range(0, n as u64 - 1) as usize };
            let g = (hi - base) / 2;
            for i in 0..n {
                let x = base + i as i128 + if i > k { g } else { 0 };
                v.push(clamp(x));
            }
        }
        "alt" => {
            for k in 0..n {
                v.push(if k % 2 == 0 { lo } else { hi });
            }
        }
        "arith" => {
            let d = (*r.pick(&[1i128, 7, 1000])).min(span / (n as i128 + 1));
            let base = rand_in(r, lo, hi - d * n as i128);
            for k in 0..n {
                v.push(clamp(base + d * k as i128));
            }
        }
        "runs" => {
            let base = rand_in(r, lo, (hi - 40).max(lo));
            while v.len() < n {
                let x = clamp(base + rand_in(r, 0, 40));
                let len = r.range(1, 20) as usize;
                for _ in 0..len.min(n - v.len()) {
                    v.push(x);
                }
            }
        }
        "hi_small" => {
            for _ in 0..n {
                v.push(clamp(hi - rand_in(r, 0, 15)));
            }
        }
        "lo_small" => {
            for _ in 0..n {
                v.push(clamp(lo + rand_in(r, 0, 15)));
            }
        }
        _ => panic!("unknown profile {profile}"),
    }
    v
}

// ---------------------------------------------------------------- subjects

/// what one read delivered
enum Rd {
    Val(String),
    None,
    Err,
}
enum Rd2 {
    Val(String, String),
    Err,
}

/// Uniform view of a container under test.  Every method is a thin call-through; `None`
/// (outer) for an operation the type does not offer.
trait Cont {
    fn len(&self) -> usize;
    fn get(&self, i: usize) -> Rd;
    fn get2(&self, _i: usize) -> Option<Rd2> {
        None
    }
    fn has_get2(&self) -> bool {
        false
    }
    fn has_fast_get(&self) -> bool {
        false
    }
    /// bits per element handed to fast_get
    fn bits(&self) -> usize {
        0
    }
    /// the static fast_get over the container's raw data
    fn fast_get(&self, _i: usize) -> Option<Rd> {
        None
    }
    /// (block size, number of blocks) where get_block is offered
    fn blocks(&self) -> Option<(usize, usize)> {
        None
    }
    fn get_block(&self, _b: usize) -> Option<Result<Vec<String>, String>> {
        None
    }
    fn push(&mut self, _x: i128) -> Option<Result<(), String>> {
        None
    }
    fn set(&mut self, _i: usize, _x: i128) -> Option<()> {
        None
    }
    /// builder subjects: finish(); None where there is nothing to finish
    fn finish(&mut self) -> Option<Result<(), String>> {
        None
    }
    /// the decimal string of input number x as the typed value handed to the container
    fn show(&self, x: i128) -> String;
}

// ---- IntVec<T>
struct IV<T: PackedInt + Ty>(IntVec<T>);
impl<T: PackedInt + Ty> Cont for IV<T> {
    fn len(&self) -> usize {
        self.0.len()
    }
    fn get(&self, i: usize) -> Rd {
        match self.0.get(i) {
            Some(x) => Rd::Val(x.to_string()),
            None => Rd::None,
        }
    }
    fn show(&self, x: i128) -> String {
        T::cast(x).to_string()
    }
}
fn build_iv<T: PackedInt + Ty>(ctor: &str, xs: &[i128]) -> Result<Box<dyn Cont>, String> {
    let vals: Vec<T> = xs.iter().map(|&x| T::cast(x)).collect();
    let r = match ctor {
        "from_slice" => IntVec::<T>::from_slice(&vals),
        "from_slice_bulk" => IntVec::<T>::from_slice_bulk(&vals),
        "from_slice_bulk_simd" => IntVec::<T>::from_slice_bulk_simd(&vals),
        _ => panic!("ctor"),
    };
    match r {
        Ok(v) => Ok(Box::new(IV(v))),
        Err(e) => Err(e.to_string()),
    }
}

// ---- UintVector
struct UV(UintVector);
impl Cont for UV {
    fn len(&self) -> usize {
        self.0.len()
    }
    fn get(&self, i: usize) -> Rd {
        match self.0.get(i) {
            Some(x) => Rd::Val(x.to_string()),
            None => Rd::None,
        }
    }
    fn push(&mut self, x: i128) -> Option<Result<(), String>> {
        Some(self.0.push(x as u32).map_err(|e| e.to_string()))
    }
    fn show(&self, x: i128) -> String {
        (x as u32).to_string()
    }
}

// ---- UintVecMin0: build_from_X returns (vector of value - min, min); element i is min + get(i)
#[derive(Clone, Copy)]
enum Min {
    Usize(usize),
    U32(u32),
    I32(i32),
}
impl Min {
    fn plus(self, w: usize) -> String {
        match self {
            Min::Usize(m) => m.wrapping_add(w).to_string(),
            Min::U32(m) => m.wrapping_add(w as u32).to_string(),
            Min::I32(m) => m.wrapping_add(w as i32).to_string(),
        }
    }
    /// the wire value of x, computed exactly as the build_from_X function of that type does
    fn wire(self, x: i128) -> usize {
        match self {
            Min::Usize(m) => (x as usize).wrapping_sub(m),
            Min::U32(m) => (x as u32).wrapping_sub(m) as usize,
            Min::I32(m) => (x as i32).wrapping_sub(m) as usize,
        }
    }
    fn show(self, x: i128) -> String {
        match self {
            Min::Usize(_) => (x as usize).to_string(),
            Min::U32(_) => (x as u32).to_string(),
            Min::I32(_) => (x as i32).to_string(),
        }
    }
}
struct M0 {
    v: UintVecMin0,
    min: Min,
}
impl Cont for M0 {
    fn len(&self) -> usize {
        self.v.size()
    }
    fn get(&self, i: usize) -> Rd {
        Rd::Val(self.min.plus(self.v.get(i)))
    }
    fn has_get2(&self) -> bool {
        true
    }
    fn has_fast_get(&self) -> bool {
        true
    }
    fn get2(&self, i: usize) -> Option<Rd2> {
        let [a, b] = self.v.get2(i);
        Some(Rd2::Val(self.min.plus(a), self.min.plus(b)))
    }
    fn bits(&self) -> usize {
        self.v.uintbits()
    }
    fn fast_get(&self, i: usize) -> Option<Rd> {
        Some(match UintVecMin0::fast_get(self.v.data(), self.v.uintbits(), self.v.uintmask(), i) {
            Ok(w) => Rd::Val(self.min.plus(w)),
            Err(_) => Rd::Err,
        })
    }
    fn push(&mut self, x: i128) -> Option<Result<(), String>> {
        self.v.push_back(self.min.wire(x));
        Some(Ok(()))
    }
    fn set(&mut self, i: usize, x: i128) -> Option<()> {
        self.v.set(i, self.min.wire(x));
        Some(())
    }
    fn show(&self, x: i128) -> String {
        self.min.show(x)
    }
}

// ---- ZipIntVec
struct ZI {
    v: ZipIntVec,
    u32_: bool,
}
impl Cont for ZI {
    fn len(&self) -> usize {
        self.v.size()
    }
    fn get(&self, i: usize) -> Rd {
        Rd::Val(self.v.get(i).to_string())
    }
    fn has_get2(&self) -> bool {
        true
    }
    fn has_fast_get(&self) -> bool {
        true
    }
    fn get2(&self, i: usize) -> Option<Rd2> {
        let [a, b] = self.v.get2(i);
        Some(Rd2::Val(a.to_string(), b.to_string()))
    }
    fn bits(&self) -> usize {
        self.v.uintbits()
    }
    fn fast_get(&self, i: usize) -> Option<Rd> {
        Some(match ZipIntVec::fast_get(self.v.data(), self.v.uintbits(), self.v.uintmask(), self.v.min_val(), i) {
            Ok(w) => Rd::Val(w.to_string()),
            Err(_) => Rd::Err,
        })
    }
    fn push(&mut self, x: i128) -> Option<Result<(), String>> {
        self.v.push_back(x as usize);
        Some(Ok(()))
    }
    fn set(&mut self, i: usize, x: i128) -> Option<()> {
        self.v.set(i, x as usize);
        Some(())
    }
    fn show(&self, x: i128) -> String {
        if self.u32_ {
            (x as u32).to_string()
        } else {
            (x as usize).to_string()
        }
    }
}

// ---- SortedUintVec through its builder
struct SV {
    b: Option<SortedUintVecBuilder>,
    v: Option<SortedUintVec>,
}
impl SV {
    fn vec(&self) -> &SortedUintVec {
        self.v.as_ref().expect("finished")
    }
}
impl Cont for SV {
    fn len(&self) -> usize {
        match (&self.v, &self.b) {
            (Some(v), _) => v.len(),
            (_, Some(b)) => b.len(),
            _ => 0,
        }
    }
    fn get(&self, i: usize) -> Rd {
        match self.vec().get(i) {
            Ok(x) => Rd::Val(x.to_string()),
            Err(_) => Rd::Err,
        }
    }
    fn has_get2(&self) -> bool {
        true
    }
    fn get2(&self, i: usize) -> Option<Rd2> {
        Some(match self.vec().get2(i) {
            Ok((a, b)) => Rd2::Val(a.to_string(), b.to_string()),
            Err(_) => Rd2::Err,
        })
    }
    fn blocks(&self) -> Option<(usize, usize)> {
        let v = self.vec();
        Some((v.config().block_size(), v.num_blocks()))
    }
    fn get_block(&self, b: usize) -> Option<Result<Vec<String>, String>> {
        let v = self.vec();
        let mut out = vec![0u64; v.config().block_size()];
        Some(match v.get_block(b, &mut out) {
            Ok(()) => Ok(out.iter().map(|x| x.to_string()).collect()),
            Err(e) => Err(e.to_string()),
        })
    }
    fn push(&mut self, x: i128) -> Option<Result<(), String>> {
        Some(self.b.as_mut().expect("builder").push(x as u64).map_err(|e| e.to_string()))
    }
    fn finish(&mut self) -> Option<Result<(), String>> {
        let b = self.b.take()?;
        Some(match b.finish() {
            Ok(v) => {
                self.v = Some(v);
                Ok(())
            }
            Err(e) => Err(e.to_string()),
        })
    }
    fn show(&self, x: i128) -> String {
        (x as u64).to_string()
    }
}
const SORTED_CFGS: &[&str] = &["default", "perf", "mem", "wide", "odd"];
fn sorted_cfg(variant: &str) -> SortedUintVecConfig {
    // variant = "<cfg>:b<log2>"
    let mut it = variant.split(':');
    let c = it.next().unwrap_or("default");
    let log2: u8 = it.next().and_then(|b| b[1..].parse().ok()).unwrap_or(6);
    let mut cfg = match c {
        "perf" => SortedUintVecConfig::performance_optimized(),
        "mem" => SortedUintVecConfig::memory_optimized(),
        "wide" => SortedUintVecConfig { log2_block_units: 6, offset_width: 32, sample_width: 64, use_simd: true },
        // accepted by validate(); widths that are not multiples of 4/8 bits, portable extraction
        "odd" => SortedUintVecConfig { log2_block_units: 6, offset_width: 13, sample_width: 61, use_simd: false },
        _ => SortedUintVecConfig::default(),
    };
    cfg.log2_block_units = log2;
    cfg
}

// ---- naming

const INT_TYPES: &[&str] = &["u8", "u16", "u32", "u64", "i8", "i16", "i32", "i64"];
const CTORS: &[&str] = &["from_slice", "from_slice_bulk", "from_slice_bulk_simd"];

fn subjects() -> Vec<String> {
    let mut v = vec![];
    for t in INT_TYPES {
        for c in CTORS {
            v.push(format!("intvec:{t}:{c}"));
        }
    }
    v.push("uintvec:build_from".into());
    v.push("uintvec:push".into());
    for t in ["usize", "u32", "i32", "push"] {
        v.push(format!("uvm0:{t}"));
    }
    for t in ["usize", "u32", "push"] {
        v.push(format!("zipint:{t}"));
    }
    for c in SORTED_CFGS {
        for b in 4..=8 {
            v.push(format!("sorted:{c}:b{b}"));
        }
    }
    v
}
fn fam_of(name: &str) -> &str {
    name.split(':').next().unwrap_or("")
}
fn variant_of(name: &str) -> &str {
    name.splitn(2, ':').nth(1).unwrap_or("")
}
/// subject group = unit of child-process isolation
fn group_of(name: &str) -> String {
    let p: Vec<&str> = name.split(':').collect();
    match p[0] {
        "intvec" => format!("intvec:{}", p[1]),
        "sorted" => format!("sorted:{}", p[1]),
        f => f.to_string(),
    }
}
fn incremental(name: &str) -> bool {
    name.ends_with(":push")
}

/// value domains of a subject: (label, lo, hi)
fn domains(name: &str) -> Vec<(&'static str, i128, i128)> {
    let p: Vec<&str> = name.split(':').collect();
    fn of<T: Ty>() -> (&'static str, i128, i128) {
        (T::NAME, T::MIN, T::MAX)
    }
    match (p[0], p[1]) {
        ("intvec", "u8") => vec![of::<u8>()],
        ("intvec", "u16") => vec![of::<u16>()],
        ("intvec", "u32") => vec![of::<u32>()],
        ("intvec", "u64") => vec![of::<u64>()],
        ("intvec", "i8") => vec![of::<i8>()],
        ("intvec", "i16") => vec![of::<i16>()],
        ("intvec", "i32") => vec![of::<i32>()],
        ("intvec", "i64") => vec![of::<i64>()],
        ("uintvec", _) => vec![of::<u32>()],
        // UintVecMin0 / ZipIntVec document a 58-bit fast path: both the documented range and all 64 bits
        ("uvm0", "usize") | ("uvm0", "push") | ("zipint", "usize") | ("zipint", "push") => {
            vec![("u58", 0, (1i128 << 58) - 1), ("u64", 0, u64::MAX as i128), ("u20", 0, (1 << 20) - 1)]
        }
        ("uvm0", "u32") | ("zipint", "u32") => vec![of::<u32>()],
        ("uvm0", "i32") => vec![of::<i32>()],
        ("sorted", c) => {
            let sw = sorted_cfg(c).sample_width as u32;
            let fit = ("fit", 0i128, (1i128 << sw.min(64)) - 1);
            // "ow": the whole range of one in-block offset (offset_width bits), so that the offsets stored in a
            // block reach the top bit of the offset field
            let ow = sorted_cfg(c).offset_width as u32;
            let owd = ("ow", 0i128, (1i128 << ow.min(64)) - 1);
            if sw < 64 {
                vec![fit, ("u64", 0, u64::MAX as i128), ("u20", 0, (1 << 20) - 1), owd]
            } else {
                vec![fit, ("u20", 0, (1 << 20) - 1), owd]
            }
        }
        _ => vec![],
    }
}

/// bulk construction of subject `name` from xs
fn build(name: &str, xs: &[i128]) -> Result<Box<dyn Cont>, String> {
    let p: Vec<&str> = name.split(':').collect();
    match (p[0], p[1]) {
        ("intvec", "u8") => build_iv::<u8>(p[2], xs),
        ("intvec", "u16") => build_iv::<u16>(p[2], xs),
        ("intvec", "u32") => build_iv::<u32>(p[2], xs),
        ("intvec", "u64") => build_iv::<u64>(p[2], xs),
        ("intvec", "i8") => build_iv::<i8>(p[2], xs),
        ("intvec", "i16") => build_iv::<i16>(p[2], xs),
        ("intvec", "i32") => build_iv::<i32>(p[2], xs),
        ("intvec", "i64") => build_iv::<i64>(p[2], xs),
        ("uintvec", "build_from") => {
            let vals: Vec<u32> = xs.iter().map(|&x| x as u32).collect();
            match UintVector::build_from(&vals) {
                Ok(v) => Ok(Box::new(UV(v))),
                Err(e) => Err(e.to_string()),
            }
        }
        ("uvm0", "usize") => {
            let vals: Vec<usize> = xs.iter().map(|&x| x as usize).collect();
            let (v, m) = UintVecMin0::build_from_usize(&vals);
            Ok(Box::new(M0 { v, min: Min::Usize(m) }))
        }
        ("uvm0", "u32") => {
            let vals: Vec<u32> = xs.iter().map(|&x| x as u32).collect();
            let (v, m) = UintVecMin0::build_from_u32(&vals);
            Ok(Box::new(M0 { v, min: Min::U32(m) }))
        }
        ("uvm0", "i32") => {
            let vals: Vec<i32> = xs.iter().map(|&x| x as i32).collect();
            let (v, m) = UintVecMin0::build_from_i32(&vals);
            Ok(Box::new(M0 { v, min: Min::I32(m) }))
        }
        ("zipint", "usize") => {
            let vals: Vec<usize> = xs.iter().map(|&x| x as usize).collect();
            Ok(Box::new(ZI { v: ZipIntVec::build_from_usize(&vals), u32_: false }))
        }
        ("zipint", "u32") => {
            let vals: Vec<u32> = xs.iter().map(|&x| x as u32).collect();
            Ok(Box::new(ZI { v: ZipIntVec::build_from_u32(&vals), u32_: true }))
        }
        ("sorted", _) => {
            let mut c = empty(name).ok_or("no builder")?;
            for &x in xs {
                if let Some(Err(e)) = c.push(x) {
                    return Err(format!("push refused: {e}"));
                }
            }
            match c.finish() {
                Some(Ok(())) => Ok(c),
                Some(Err(e)) => Err(e),
                None => Err("no finish".into()),
            }
        }
        _ => Err(format!("unknown subject {name}")),
    }
}

/// an empty container for incremental construction
fn empty(name: &str) -> Option<Box<dyn Cont>> {
    let p: Vec<&str> = name.split(':').collect();
    match (p[0], p[1]) {
        ("uintvec", "push") => Some(Box::new(UV(UintVector::new()))),
        ("uvm0", "push") => Some(Box::new(M0 { v: UintVecMin0::new_empty(), min: Min::Usize(0) })),
        ("zipint", "push") => Some(Box::new(ZI { v: ZipIntVec::new_empty(), u32_: false })),
        ("sorted", _) => Some(Box::new(SV { b: Some(SortedUintVecBuilder::with_config(sorted_cfg(variant_of(name)))), v: None })),
        _ => None,
    }
}

// ---------------------------------------------------------------- events

/// a message with every run of digits replaced by N (so that TLC can compare it for equality)
fn msgk(m: &str) -> String {
    let mut out = String::new();
    let mut in_num = false;
    for ch in m.chars() {
        if ch.is_ascii_digit() {
            if !in_num {
                out.push('N');
            }
            in_num = true;
        } else {
            in_num = false;
            out.push(ch);
        }
    }
    out
}

fn panic_ev(inop: &str, msg: &str, extra: Value) -> Value {
    let mut e = json!({"op":"panic","in":inop,"msg":msg,"msgk":msgk(msg)});
    if let (Some(o), Some(x)) = (e.as_object_mut(), extra.as_object()) {
        for (k, v) in x {
            o.insert(k.clone(), v.clone());
        }
    }
    e
}

/// the complete read-back through get(i), i in 0..len(): one event
fn ev_readback(c: &dyn Cont, cap: usize, via: &str) -> Value {
    let at = Cell::new(0usize);
    let r = guard(|| {
        let n = c.len();
        let mut out = Vec::with_capacity(n.min(cap));
        for i in 0..n.min(cap) {
            at.set(i);
            let rd = if via == "fast_get" { c.fast_get(i).unwrap_or(Rd::None) } else { c.get(i) };
            out.push(Value::String(match rd {
                Rd::Val(s) => s,
                Rd::None => "none".into(),
                Rd::Err => "err".into(),
            }));
        }
        (n, out)
    });
    match r {
        Ok((n, out)) => json!({"op":"readback","via":via,"n":n,"out":out}),
        Err(m) => panic_ev("readback", &m, json!({"via":via,"i":idx(at.get())})),
    }
}
fn ev_readback2(c: &dyn Cont, cap: usize) -> Option<Value> {
    if !c.has_get2() {
        return None;
    }
    let at = Cell::new(0usize);
    let r = guard(|| {
        let n = c.len().min(cap);
        let mut out = Vec::with_capacity(n);
        for i in 0..n.saturating_sub(1) {
            at.set(i);
            match c.get2(i) {
                Some(Rd2::Val(a, b)) => out.push(json!([a, b])),
                Some(Rd2::Err) => out.push(json!(["err", "err"])),
                None => return None,
            }
        }
        Some(out)
    });
    match r {
        Ok(Some(out)) => Some(json!({"op":"readback2","out":out})),
        Ok(None) => None,
        Err(m) => Some(panic_ev("readback2", &m, json!({"i":idx(at.get())}))),
    }
}
fn ev_readblocks(c: &dyn Cont) -> Option<Value> {
    let r = guard(|| {
        let (bs, nb) = c.blocks()?;
        let mut out: Vec<Value> = vec![];
        for b in 0..nb {
            match c.get_block(b)? {
                Ok(v) => out.extend(v.into_iter().map(Value::String)),
                Err(_) => return Some(json!({"op":"probes","g":[{"k":"get_block","i":idx(b),"bs":bs,"ok":false,"out":[]}]})),
            }
        }
        Some(json!({"op":"readblocks","bs":bs,"nb":nb,"out":out}))
    });
    match r {
        Ok(x) => x,
        Err(m) => Some(panic_ev("readblocks", &m, json!({}))),
    }
}
fn ev_get(c: &dyn Cont, i: usize, via: &str) -> Value {
    let r = guard(|| if via == "fast_get" { c.fast_get(i).unwrap_or(Rd::None) } else { c.get(i) });
    let mut e = match r {
        Ok(Rd::Val(v)) => json!({"i":idx(i),"r":[v],"how":"value"}),
        Ok(Rd::None) => json!({"i":idx(i),"r":[],"how":"none"}),
        Ok(Rd::Err) => json!({"i":idx(i),"r":[],"how":"err"}),
        Err(m) => json!({"i":idx(i),"r":[],"how":"panic","msg":m}),
    };
    e["k"] = json!(via);
    if via == "fast_get" {
        e["bits"] = json!(c.bits());
    }
    e
}
fn ev_get2(c: &dyn Cont, i: usize) -> Option<Value> {
    if !c.has_get2() {
        return None;
    }
    let r = guard(|| c.get2(i));
    Some(match r {
        Ok(None) => return None,
        Ok(Some(Rd2::Val(a, b))) => json!({"k":"get2","i":idx(i),"r":[[a, b]],"how":"value"}),
        Ok(Some(Rd2::Err)) => json!({"k":"get2","i":idx(i),"r":[],"how":"err"}),
        Err(m) => json!({"k":"get2","i":idx(i),"r":[],"how":"panic","msg":m}),
    })
}
fn ev_get_block(c: &dyn Cont, b: usize) -> Option<Value> {
    let bs = c.blocks()?.0;
    let r = guard(|| c.get_block(b));
    Some(match r {
        Ok(None) => return None,
        Ok(Some(Ok(v))) => json!({"k":"get_block","i":idx(b),"bs":bs,"ok":true,"out":v}),
        Ok(Some(Err(_))) => json!({"k":"get_block","i":idx(b),"bs":bs,"ok":false,"out":[]}),
        Err(m) => json!({"k":"get_block","i":idx(b),"bs":bs,"ok":false,"out":[],"how":"panic","msg":m}),
    })
}

struct Stats {
    events: usize,
    builds: usize,
    build_refused: usize,
    build_panics: usize,
    panics: usize,
    oob_probes: usize,
    oob_by_panic: usize,
    runs_nontrivial: usize,
}
impl Stats {
    fn new() -> Stats {
        Stats { events: 0, builds: 0, build_refused: 0, build_panics: 0, panics: 0, oob_probes: 0, oob_by_panic: 0, runs_nontrivial: 0 }
    }
    fn json(&self) -> Value {
        json!({"events":self.events,"builds_ok":self.builds,"build_refused":self.build_refused,"build_panics":self.build_panics,
               "panics":self.panics,"oob_probes":self.oob_probes,"oob_refused_by_panic":self.oob_by_panic,"runs_nontrivial":self.runs_nontrivial})
    }
}

/// log e; returns true when it was a panic event (the run must stop)
fn put(tr: &mut Tracer, st: &mut Stats, e: Value) -> bool {
    let p = e["op"] == "panic";
    if p {
        st.panics += 1;
    }
    tr.ev(e);
    st.events += 1;
    p
}

/// all reads of a finished container: complete read-backs, then in-range and out-of-range probes.
/// `crashy`: include the index probes recorded as crashing (known findings) - false in the driver.
fn read_all(tr: &mut Tracer, st: &mut Stats, c: &dyn Cont, n_in: usize, r: &mut Rng, full2: bool) -> bool {
    let cap = n_in + 4;
    if put(tr, st, ev_readback(c, cap, "get")) {
        return false;
    }
    let n = match guard(|| c.len()) {
        Ok(n) => n.min(cap),
        Err(_) => return false,
    };
    if c.has_fast_get() && n > 0 && n <= 300 && guard(|| c.bits()).map_or(false, |b| b <= 58) {
        if put(tr, st, ev_readback(c, cap, "fast_get")) {
            return false;
        }
    }
    if full2 {
        if let Some(e) = ev_readback2(c, cap) {
            if put(tr, st, e) {
                return false;
            }
        }
    }
    if let Some(e) = ev_readblocks(c) {
        if put(tr, st, e) {
            return false;
        }
    }
    put(tr, st, json!({"op":"len","n":n}));
    let mut g: Vec<Value> = vec![];
    // a few single in-range reads
    if n > 0 {
        for i in [0, n - 1, r.below(n as u64) as usize] {
            g.push(ev_get(c, i, "get"));
            g.extend(ev_get2(c, i));
        }
        if n >= 2 {
            g.extend(ev_get2(c, n - 2));
        }
    }
    // out-of-range probes: every one must be refused.  (get2 at the two largest indices of the
    // UintVecMin0 family wraps idx+1 and crashes the process: executed by the witness mode instead.)
    let big: [usize; 6] = [1 << 20, 1 << 32, 1 << 58, usize::MAX / 2, usize::MAX - 1, usize::MAX];
    let mut probes: Vec<usize> = vec![n, n + 1, n + 2, n + 63, n + 64, n + 65, 2 * n + 1];
    probes.extend(big.iter().map(|&b| b.max(n + 7)));
    for &i in &probes {
        st.oob_probes += 1;
        g.push(ev_get(c, i, "get"));
        let wraps = i >= usize::MAX - 1 && c.has_fast_get();
        if !wraps {
            g.extend(ev_get2(c, i));
        }
    }
    if n > 0 && c.has_get2() {
        st.oob_probes += 1;
        g.extend(ev_get2(c, n - 1));
    }
    // fast_get knows only the (padded) byte buffer: judged inside the vector and far outside
    if c.has_fast_get() && guard(|| c.bits()).map_or(false, |b| b <= 58) {
        for &i in &[n, n + (1 << 20), 1usize << 40, 1 << 61, 1 << 62, 1 << 63, usize::MAX] {
            st.oob_probes += 1;
            g.push(ev_get(c, i, "fast_get"));
        }
    }
    if let Some((_, nb)) = c.blocks() {
        for b in [nb, nb + 1, 1 << 40, usize::MAX] {
            if let Some(e) = ev_get_block(c, b) {
                st.oob_probes += 1;
                g.push(e);
            }
        }
    }
    st.oob_by_panic += g.iter().filter(|p| p["how"] == "panic").count();
    put(tr, st, json!({"op":"probes","g":g}));
    true
}

fn bitlen(x: u128) -> u32 {
    128 - x.leading_zeros()
}
/// the 64-bit two's complement pattern of an input number (what `as u64` gives)
fn pat(x: i128) -> u64 {
    x as u64
}
/// descriptors of an input sequence (of the INPUT only; they name the input class in the reset
/// event so that known-finding triggers can be stated in TLA+): length, bit length of max-min,
/// of the 64-bit-pattern range, of the largest value; sign
fn describe(name: &str, xs: &[i128]) -> Value {
    let (mn, mx) = (xs.iter().min().copied().unwrap_or(0), xs.iter().max().copied().unwrap_or(0));
    let (umn, umx) = (xs.iter().map(|&x| pat(x)).min().unwrap_or(0), xs.iter().map(|&x| pat(x)).max().unwrap_or(0));
    let mut d = json!({"n": xs.len(), "bw": bitlen((mx - mn) as u128), "ubw": bitlen((umx - umn) as u128),
        "maxbits": bitlen(umx as u128), "neg": mn < 0});
    let p: Vec<&str> = name.split(':').collect();
    match p[0] {
        "intvec" => {
            let tb = match p[1] {
                "u8" | "i8" => 1,
                "u16" | "i16" => 2,
                "u32" | "i32" => 4,
                _ => 8,
            };
            d["tbytes"] = json!(tb);
            d["urk"] = json!(uranks(xs));
        }
        "sorted" => {
            let c = sorted_cfg(variant_of(name));
            d["sw"] = json!(c.sample_width);
            d["ow"] = json!(c.offset_width);
            d["bl"] = json!(c.log2_block_units);
        }
        _ => {}
    }
    d
}
/// dense ranks of the 64-bit patterns of the input (order-preserving coordinate compression)
fn uranks(xs: &[i128]) -> Vec<u32> {
    let mut sorted: Vec<u64> = xs.iter().map(|&x| pat(x)).collect();
    sorted.sort_unstable();
    sorted.dedup();
    xs.iter().map(|&x| sorted.binary_search(&pat(x)).unwrap_or(0) as u32).collect()
}

fn meta(name: &str, a: &Args, extra: Value) -> Value {
    let mut m = json!({"fam": fam_of(name), "variant": variant_of(name), "seed": a.seed});
    if let (Some(o), Some(x)) = (m.as_object_mut(), extra.as_object()) {
        for (k, v) in x {
            o.insert(k.clone(), v.clone());
        }
    }
    m
}

/// one bulk case: build from xs, read everything back
fn bulk_case(tr: &mut Tracer, st: &mut Stats, a: &Args, name: &str, dom: &str, profile: &str, xs: &[i128], r: &mut Rng, sets: bool) {
    let mut m = meta(name, a, json!({"dom":dom,"profile":profile,"mode":if sets {"bulk+set"} else {"bulk"}}));
    m["d"] = describe(name, xs);
    tr.reset("packedseq", name, m);
    let built = guard(|| build(name, xs));
    let mut c = match built {
        Err(m) => {
            st.build_panics += 1;
            put(tr, st, panic_ev("build", &m, json!({"n": xs.len()})));
            return;
        }
        Ok(Err(e)) => {
            st.build_refused += 1;
            put(tr, st, json!({"op":"build","xs":[],"ok":false,"err":e,"n":xs.len()}));
            return;
        }
        Ok(Ok(c)) => c,
    };
    st.builds += 1;
    let shown: Vec<String> = xs.iter().map(|&x| c.show(x)).collect();
    put(tr, st, json!({"op":"build","xs":shown,"ok":true}));
    if !xs.is_empty() {
        st.runs_nontrivial += 1;
    }
    let mut dead = false;
    if sets && !xs.is_empty() {
        // set(i, x) with x drawn from the input (inside the range the container was sized for)
        for _ in 0..8 {
            let i = r.below(xs.len() as u64) as usize;
            let x = *r.pick(xs);
            let res = guard(|| c.set(i, x));
            match res {
                Ok(Some(())) => {
                    put(tr, st, json!({"op":"set","i":idx(i),"x":c.show(x),"ok":true}));
                }
                Ok(None) => break,
                Err(m) => {
                    put(tr, st, json!({"op":"set","i":idx(i),"x":c.show(x),"ok":false,"how":"panic","msgk":msgk(&m),"msg":m}));
                    dead = true;
                    break;
                }
            }
        }
    }
    if !dead {
        let full2 = xs.len() <= 130 || (a.thorough() && xs.len() <= 1000);
        if !read_all(tr, st, c.as_ref(), xs.len(), r, full2) {
            dead = true;
        }
    }
    if !dead && sets {
        // an out-of-range set must be refused (documented panic); ends the run
        let n = xs.len();
        let x = xs.first().copied().unwrap_or(0);
        let res = guard(|| c.set(n, x));
        match res {
            Ok(Some(())) => {
                put(tr, st, json!({"op":"set","i":idx(n),"x":c.show(x),"ok":true}));
                put(tr, st, ev_readback(c.as_ref(), n + 4, "get"));
            }
            Ok(None) => {}
            Err(m) => {
                put(tr, st, json!({"op":"set","i":idx(n),"x":c.show(x),"ok":false,"how":"panic","msgk":msgk(&m),"msg":m}));
                dead = true;
            }
        }
    }
    if dead {
        std::mem::forget(c);
    }
}

/// incremental case: empty container, pushes in chunks, complete read-back at every checkpoint
fn inc_case(tr: &mut Tracer, st: &mut Stats, a: &Args, name: &str, dom: &str, profile: &str, xs: &[i128], checkpoints: &[usize], r: &mut Rng) {
    let mut m = meta(name, a, json!({"dom":dom,"profile":profile,"mode":"inc"}));
    m["d"] = describe(name, xs);
    tr.reset("packedseq", name, m);
    let mut c = match guard(|| empty(name)) {
        Ok(Some(c)) => c,
        _ => return,
    };
    put(tr, st, json!({"op":"build","xs":[],"ok":true}));
    st.builds += 1;
    let mut pending: Vec<String> = vec![];
    let mut dead = false;
    let mut pushed = 0usize;
    for (k, &x) in xs.iter().enumerate() {
        let res = guard(|| c.push(x));
        match res {
            Ok(Some(Ok(()))) => {
                pending.push(c.show(x));
                pushed += 1;
            }
            Ok(Some(Err(e))) => {
                if !pending.is_empty() {
                    put(tr, st, json!({"op":"extend","xs":std::mem::take(&mut pending)}));
                }
                put(tr, st, json!({"op":"push","x":c.show(x),"ok":false,"err":e}));
            }
            Ok(None) => return,
            Err(m) => {
                if !pending.is_empty() {
                    put(tr, st, json!({"op":"extend","xs":std::mem::take(&mut pending)}));
                }
                put(tr, st, panic_ev("push", &m, json!({"x":c.show(x)})));
                dead = true;
                break;
            }
        }
        if checkpoints.contains(&(k + 1)) || k + 1 == xs.len() {
            if !pending.is_empty() {
                put(tr, st, json!({"op":"extend","xs":std::mem::take(&mut pending)}));
            }
            if c.finish().is_none() {
                // readable while growing
                let last = k + 1 == xs.len();
                if last {
                    if !read_all(tr, st, c.as_ref(), pushed, r, pushed <= 300) {
                        dead = true;
                        break;
                    }
                } else {
                    if put(tr, st, ev_readback(c.as_ref(), pushed + 4, "get")) {
                        dead = true;
                        break;
                    }
                    st.oob_probes += 1;
                    put(tr, st, json!({"op":"probes","g":[ev_get(c.as_ref(), pushed, "get")]}));
                }
            }
        }
    }
    if pushed > 0 {
        st.runs_nontrivial += 1;
    }
    if dead {
        std::mem::forget(c);
    }
}

// ---------------------------------------------------------------- drive

const LENS_ALL: &[usize] = &[0, 1, 2, 63, 64, 65, 127, 128, 129, 255, 256, 257, 1000];
const LENS_BIG: &[usize] = &[10000, 10001];

/// the cases of one subject: (dom, lo, hi, profile, n)
fn cases(a: &Args, name: &str) -> Vec<(&'static str, i128, i128, &'static str, usize)> {
    let mut v = vec![];
    let fam = fam_of(name);
    let doms = domains(name);
    let quick = !a.thorough();
    // the delegating IntVec constructors take every second (profile, length) pair in the quick tier
    let half = quick && fam == "intvec" && !name.ends_with(":from_slice");
    for (di, &(dom, lo, hi)) in doms.iter().enumerate() {
        let secondary = di > 0;
        for (pi, &p) in PROFILES.iter().enumerate() {
            // sorted input makes several profiles alike: the quick tier keeps the distinct ones
            if quick && fam == "sorted" && matches!(p, "alt" | "allbits" | "lo_small") {
                continue;
            }
            // SortedUintVec: the lengths around the boundaries of ITS block size (quick: only those)
            let mut lens: Vec<usize> = LENS_ALL.to_vec();
            if fam == "sorted" {
                let bs = sorted_cfg(variant_of(name)).block_size();
                let around = [0, 1, 2, bs - 1, bs, bs + 1, 2 * bs - 1, 2 * bs, 2 * bs + 1, 1000];
                if quick {
                    lens = around.to_vec();
                } else {
                    lens.extend(around.iter().filter(|n| !LENS_ALL.contains(n)));
                }
                if quick && secondary {
                    lens = vec![2, bs + 1];
                }
            }
            for (li, &n) in lens.iter().enumerate() {
                if quick && secondary && fam != "sorted" && !(n == 0 || n == 2 || n == 65 || n == 257) {
                    continue;
                }
                if quick && fam == "sorted" && n == 1000 && (pi + sorted_cfg(variant_of(name)).log2_block_units as usize) % 2 == 1 {
                    continue;
                }
                if half && n > 2 && (pi + li) % 2 == 1 {
                    continue;
                }
                v.push((dom, lo, hi, p, n));
            }
            // outliers confined to the trailing partial block: lengths just past a block multiple, above the
            // 1000-element threshold of the block-based strategy (every constructor, both tiers)
            if p == "tail_outlier" && fam != "sorted" && !secondary {
                for &n in &[1029usize, 1100, 2051, 4099] {
                    v.push((dom, lo, hi, p, n));
                }
                if a.thorough() {
                    v.push((dom, lo, hi, p, 12803));
                }
            }
            // long inputs (the IntVec strategy switch sits at 10 000 elements / 16 KiB)
            let mut rot = Rng::new(a.seed).derive(&group_of(name)).derive(p).derive(dom);
            let k0 = rot.next();
            for &n in LENS_BIG {
                let take = if a.thorough() {
                    true
                } else {
                    match fam {
                        // quick: every second (type, profile) pair gets one long input: one constructor and
                        // one of the two long lengths, rotating with the seed
                        "intvec" => {
                            (pi + (k0 >> 20) as usize) % 2 == 0
                                && CTORS[((k0 % 3) as usize + pi) % 3] == name.rsplit(':').next().unwrap_or("")
                                && ((k0 >> 8) as usize + pi / 2 + n) % 2 == 0
                        }
                        "sorted" => !secondary && name.ends_with("b6") && pi % 4 == (n % 4),
                        _ => !secondary && pi % 4 == n % 4,
                    }
                };
                if take {
                    v.push((dom, lo, hi, p, n));
                }
            }
            // thorough: 70 000 elements (well beyond the strategy switch) for a rotating quarter of the profiles
            let rot4 = pi % 4 == (k0 >> 12) as usize % 4;
            let big70 = match fam {
                "intvec" => name.ends_with(":from_slice") && rot4,
                "sorted" => name.ends_with("default:b7") && rot4,
                "uintvec" => true,
                _ => rot4,
            };
            if a.thorough() && !secondary && big70 {
                v.push((dom, lo, hi, p, 70000));
            }
        }
    }
    v
}

fn run_subject(tr: &mut Tracer, a: &Args, name: &str) -> Value {
    let mut st = Stats::new();
    let rng0 = Rng::new(a.seed).derive(name);
    let mut ncases = 0usize;
    let runs0 = tr.runs;
    for (dom, lo, hi, profile, n) in cases(a, name) {
        let mut r = rng0.derive(&format!("{dom}/{profile}/{n}"));
        let mut xs = gen(profile, n, lo, hi, &mut r);
        if tr.runs > runs0 {
            tr.max_events = usize::MAX;
        }
        ncases += 1;
        if incremental(name) {
            if n == 0 || (n > 1000 && !a.thorough() && profile != "small" && profile != "outliers" && profile != "runs") {
                continue;
            }
            // only the largest length class of a (dom, profile): the checkpoints cover the shorter ones
            if n != 1000 && n != 10001 && n != 70000 {
                continue;
            }
            let mut cps: Vec<usize> = LENS_ALL.iter().copied().filter(|&c| c > 0).collect();
            cps.extend_from_slice(&[1001, 1002, 1063, 1064, 1065, 2000, 5000]);
            inc_case(tr, &mut st, a, name, dom, profile, &xs, &cps, &mut r);
            continue;
        }
        if fam_of(name) == "sorted" {
            // the builder needs sorted input; one profile keeps its order to exercise the refusal of push
            if !(profile == "minmax" && n == 65) {
                xs.sort_unstable();
            }
        }
        bulk_case(tr, &mut st, a, name, dom, profile, &xs, &mut r, false);
        // set() where offered: a second run on the same input
        let offers_set = matches!(fam_of(name), "uvm0" | "zipint");
        if offers_set && (n == 2 || n == 65 || (a.thorough() && (n == 257 || n == 1000))) {
            bulk_case(tr, &mut st, a, name, dom, profile, &xs, &mut r, true);
        }
    }
    let mut j = st.json();
    j["cases"] = json!(ncases);
    j
}

fn group(a: &Args) {
    let g = a.get("group").unwrap_or("").to_string();
    let mut tr = Tracer::new(&a.out, &format!("ps-{}", g.replace(':', "_")));
    let mut per_subject = serde_json::Map::new();
    for name in subjects().iter().filter(|s| group_of(s) == g && a.wants(s)) {
        // one trace file per subject (rotation happens at the next reset)
        tr.max_events = 0;
        per_subject.insert(name.clone(), run_subject(&mut tr, a, name));
        tr.flush();
    }
    tr.close();
    std::fs::write(
        a.out.join(format!("group-{}.json", g.replace(':', "_"))),
        serde_json::to_vec(&json!({"events":tr.total_events,"runs":tr.runs,"subjects":per_subject,
            "files":tr.files.iter().map(|p|p.display().to_string()).collect::<Vec<_>>()}))
        .unwrap(),
    )
    .expect("write group summary");
}

/// recorded crashing calls (known findings whose effect cannot be modelled): (id, subject, description)
const WITNESSES: &[(&str, &str)] = &[("get2_wrap_uvm0", "uvm0:usize"), ("get2_wrap_zipint", "zipint:usize")];

fn witness_child(a: &Args) {
    // executed in a child: the call may kill the process
    let which = a.get("which").unwrap_or("");
    let xs: Vec<i128> = (0..100).map(|x| x * 3).collect();
    let name = WITNESSES.iter().find(|w| w.0 == which).map(|w| w.1).unwrap_or("");
    let c = build(name, &xs).expect("build");
    let r = guard(|| c.get2(usize::MAX));
    let code = match r {
        Err(_) => 10,                      // refused by panic
        Ok(Some(Rd2::Err)) | Ok(None) => 11, // refused
        Ok(Some(Rd2::Val(..))) => 12,      // a value for an out-of-range index
    };
    std::process::exit(code);
}

fn run_witnesses(a: &Args, tr: &mut Tracer) -> usize {
    let mut n = 0;
    let exe_args = |which: &str| -> Vec<String> {
        vec!["--mode".into(), "witness".into(), "--which".into(), which.into(), "--seed".into(), a.seed.to_string(), "--tier".into(), a.tier.clone()]
    };
    for (which, name) in WITNESSES {
        if !a.wants(name) {
            continue;
        }
        let xs: Vec<i128> = (0..100).map(|x| x * 3).collect();
        let out = run_child(&exe_args(which), 60, 0, true);
        let mut m = meta(name, a, json!({"mode":"witness","which":which}));
        m["d"] = describe(name, &xs);
        tr.reset("packedseq", name, m);
        tr.ev(json!({"op":"build","xs":xs.iter().map(|x| x.to_string()).collect::<Vec<_>>(),"ok":true}));
        let i = idx(usize::MAX);
        let e = match out {
            ChildOutcome::Exit(10) => json!({"op":"get2","i":i,"r":[],"how":"panic","msg":"(child)"}),
            ChildOutcome::Exit(11) => json!({"op":"get2","i":i,"r":[],"how":"err"}),
            ChildOutcome::Exit(12) => json!({"op":"get2","i":i,"r":[["?","?"]],"how":"value"}),
            ChildOutcome::Signal(sig) => json!({"op":"get2","i":i,"r":[],"how":"crash","signal":sig}),
            ChildOutcome::Timeout => json!({"op":"get2","i":i,"r":[],"how":"timeout"}),
            ChildOutcome::Exit(c) => json!({"op":"get2","i":i,"r":[],"how":"exit","code":c}),
        };
        tr.ev(e);
        n += 2;
    }
    n
}

fn drive(a: &Args) {
    let mut groups: Vec<String> = vec![];
    for s in subjects().iter().filter(|s| a.wants(s)) {
        let g = group_of(s);
        if !groups.contains(&g) {
            groups.push(g);
        }
    }
    let results = std::sync::Mutex::new(Vec::<(String, ChildOutcome)>::new());
    let next = std::sync::atomic::AtomicUsize::new(0);
    let nthreads = a.get_u64("threads", 12) as usize;
    std::thread::scope(|sc| {
        for _ in 0..nthreads {
            sc.spawn(|| loop {
                let i = next.fetch_add(1, std::sync::atomic::Ordering::SeqCst);
                if i >= groups.len() {
                    break;
                }
                let g = &groups[i];
                let mut args: Vec<String> = vec![
                    "--mode".into(), "group".into(), "--group".into(), g.clone(), "--seed".into(), a.seed.to_string(),
                    "--tier".into(), a.tier.clone(), "--out".into(), a.out.display().to_string(),
                ];
                if let Some(s) = &a.subject {
                    args.push("--subject".into());
                    args.push(s.clone());
                }
                let out = run_child(&args, if a.thorough() { 3000 } else { 600 }, 0, false);
                results.lock().unwrap().push((g.clone(), out));
            });
        }
    });
    let mut per_subject = serde_json::Map::new();
    let (mut events, mut runs) = (0usize, 0usize);
    let mut files: Vec<String> = vec![];
    let mut crashed = vec![];
    let mut tr = Tracer::new(&a.out, "ps-zz-extra");
    for (g, out) in results.into_inner().unwrap() {
        let p = a.out.join(format!("group-{}.json", g.replace(':', "_")));
        let ok = matches!(out, ChildOutcome::Exit(0));
        if ok {
            if let Ok(t) = std::fs::read_to_string(&p) {
                let v: Value = serde_json::from_str(&t).unwrap_or(json!({}));
                events += v["events"].as_u64().unwrap_or(0) as usize;
                runs += v["runs"].as_u64().unwrap_or(0) as usize;
                if let Some(o) = v["subjects"].as_object() {
                    for (k, x) in o {
                        per_subject.insert(k.clone(), x.clone());
                    }
                }
                if let Some(f) = v["files"].as_array() {
                    files.extend(f.iter().filter_map(|x| x.as_str().map(String::from)));
                }
            }
            let _ = std::fs::remove_file(&p);
        } else {
            // the child died: the traces it flushed are kept; the crash itself is an event no contract action matches
            crashed.push(format!("{g}: {out:?}"));
            tr.reset("packedseq", &format!("{g}:*"), json!({"fam": g.split(':').next().unwrap_or(""), "variant": "*", "mode": "crash"}));
            tr.ev(json!({"op":"crash","group":g,"outcome":format!("{out:?}")}));
        }
    }
    let wn = run_witnesses(a, &mut tr);
    tr.close();
    events += tr.total_events;
    runs += tr.runs;
    let _ = wn;
    files.extend(tr.files.iter().map(|p| p.display().to_string()));
    write_summary(&a.out, &json!({"mode":"drive","events":events,"runs":runs,"files":files,"subjects":per_subject,"crashed_groups":crashed}));
}

// ---------------------------------------------------------------- B2: TLC-generated push/set histories

/// concretisations of the abstract values a < b < c, per subject
fn concretisations(name: &str) -> Vec<(&'static str, [i128; 3])> {
    let m58 = (1i128 << 58) - 1;
    match fam_of(name) {
        "uintvec" => vec![("small", [0, 1, 2]), ("wide", [0, 255, u32::MAX as i128]), ("high", [u32::MAX as i128 - 2, u32::MAX as i128 - 1, u32::MAX as i128])],
        "sorted" => vec![("small", [0, 1, 2]), ("wide", [5, 60000, 65540]), ("high", [(1 << 32) - 3, (1 << 32) - 2, (1 << 32) - 1])],
        _ => vec![("small", [0, 1, 2]), ("wide", [0, 255, 1 << 40]), ("high", [m58 - 2, m58 - 1, m58]), ("grow", [1, 1 << 20, m58])],
    }
}

fn replay(a: &Args) {
    let input = a.input.clone().expect("--in");
    let text = std::fs::read_to_string(&input).expect("read behaviours");
    let behaviours: Vec<Value> = text.lines().filter(|l| !l.trim().is_empty()).map(|l| serde_json::from_str(l).expect("behaviour json")).collect();
    let subs: Vec<String> = ["uintvec:push", "uvm0:push", "zipint:push", "sorted:default:b4", "sorted:mem:b5", "sorted:wide:b4"]
        .iter().map(|s| s.to_string()).filter(|s| a.wants(s)).collect();
    let sample_every = a.get_u64("sample", 20);
    let max_mismatch = a.get_u64("max_mismatch", 60) as usize;
    let mut tr = Tracer::new(&a.out, "psb2");
    tr.max_events = 4000;
    let mut per_subject = serde_json::Map::new();
    let mut total_exec = 0usize;
    for name in &subs {
        let mut st = Stats::new();
        let (mut executed, mut skipped, mut mism, mut written) = (0usize, 0usize, 0usize, 0usize);
        let mut rng = Rng::new(a.seed).derive("b2").derive(name);
        for (cname, conc) in concretisations(name) {
            let val = |v: &Value| -> i128 {
                match v.as_str().unwrap_or("a") {
                    "a" => conc[0],
                    "b" => conc[1],
                    _ => conc[2],
                }
            };
            for (bi, b) in behaviours.iter().enumerate() {
                let steps = match b.as_array() {
                    Some(x) => x,
                    None => continue,
                };
                let is_builder = fam_of(name) == "sorted";
                if steps.iter().any(|s| s["op"] == "set") && (is_builder || fam_of(name) == "uintvec") {
                    skipped += 1;
                    continue;
                }
                let mut c = match guard(|| empty(name)) {
                    Ok(Some(c)) => c,
                    _ => break,
                };
                let mut evs: Vec<Value> = vec![json!({"op":"build","xs":[],"ok":true})];
                let mut differs = false;
                let mut dead = false;
                for (si, stp) in steps.iter().enumerate() {
                    let x = val(&stp["v"]);
                    let i = stp["i"].as_u64().unwrap_or(0) as usize;
                    let e = match stp["op"].as_str().unwrap_or("") {
                        "push" => match guard(|| c.push(x)) {
                            Ok(Some(Ok(()))) => json!({"op":"push","x":c.show(x),"ok":true}),
                            Ok(Some(Err(e))) => json!({"op":"push","x":c.show(x),"ok":false,"err":e}),
                            Ok(None) => json!(null),
                            Err(m) => panic_ev("push", &m, json!({"x":c.show(x)})),
                        },
                        "set" => match guard(|| c.set(i, x)) {
                            Ok(Some(())) => json!({"op":"set","i":idx(i),"x":c.show(x),"ok":true}),
                            Ok(None) => json!(null),
                            Err(m) => json!({"op":"set","i":idx(i),"x":c.show(x),"ok":false,"how":"panic","msgk":msgk(&m),"msg":m}),
                        },
                        _ => json!(null),
                    };
                    if e.is_null() {
                        break;
                    }
                    let stop = e["op"] == "panic" || e["how"] == "panic";
                    if e["ok"] == json!(false) || stop {
                        differs = true;
                    }
                    evs.push(e);
                    if stop {
                        dead = true;
                        break;
                    }
                    // the builder can be read only after finish(): at the end of the history
                    let last = si + 1 == steps.len();
                    if is_builder {
                        if !last {
                            continue;
                        }
                        match guard(|| c.finish()) {
                            Ok(Some(Ok(()))) => evs.push(json!({"op":"finish","ok":true})),
                            Ok(Some(Err(e))) => {
                                evs.push(json!({"op":"finish","ok":false,"err":e}));
                                differs = true;
                                break;
                            }
                            Ok(None) => {}
                            Err(m) => {
                                evs.push(panic_ev("finish", &m, json!({})));
                                differs = true;
                                dead = true;
                                break;
                            }
                        }
                    }
                    // the state after the step as computed by TLC (equality only)
                    let exp: Vec<String> = stp["st"].as_array().map(|q| q.iter().map(|v| c.show(val(v))).collect()).unwrap_or_default();
                    let rb = ev_readback(c.as_ref(), exp.len() + 4, "get");
                    let got_ok = rb["op"] == "readback" && rb["n"].as_u64() == Some(exp.len() as u64) && rb["out"].as_array().map_or(false, |o| o.iter().map(|v| v.as_str().unwrap_or("")).eq(exp.iter().map(|s| s.as_str())));
                    if !got_ok {
                        differs = true;
                    }
                    let rbp = rb["op"] == "panic";
                    evs.push(rb);
                    if rbp {
                        dead = true;
                        break;
                    }
                    if let Some(e2) = ev_readback2(c.as_ref(), exp.len() + 4) {
                        let p2 = e2["op"] == "panic";
                        evs.push(e2);
                        if p2 {
                            differs = true;
                            dead = true;
                            break;
                        }
                    }
                    let n = exp.len();
                    let mut g = vec![ev_get(c.as_ref(), n, "get")];
                    g.extend(ev_get2(c.as_ref(), n.saturating_sub(1)));
                    if n > 0 {
                        g.push(ev_get(c.as_ref(), n - 1, "get"));
                    }
                    if g.iter().any(|p| p["how"] == "value" && p["r"][0].as_str() != exp.last().map(|s| s.as_str())) {
                        differs = true;
                    }
                    evs.push(json!({"op":"probes","g":g}));
                }
                if dead {
                    std::mem::forget(c);
                }
                executed += 1;
                total_exec += 1;
                let sampled = rng.below(sample_every) == 0;
                if differs {
                    mism += 1;
                }
                if (differs && written < max_mismatch) || sampled {
                    if differs {
                        written += 1;
                    }
                    let mut m = meta(name, a, json!({"mode":"b2","conc":cname,"behaviour":bi,"differs":differs}));
                    m["d"] = describe(name, &conc);
                    tr.reset("packedseq", name, m);
                    for e in evs {
                        put(&mut tr, &mut st, e);
                    }
                }
            }
        }
        per_subject.insert(name.clone(), json!({"behaviours":executed,"skipped":skipped,"mismatching":mism,"mismatch_traces_written":written,"events":st.events}));
    }
    tr.close();
    write_summary(&a.out, &json!({"mode":"replay","behaviours":behaviours.len(),"executions":total_exec,"events":tr.total_events,"runs":tr.runs,
        "files":tr.files.iter().map(|p|p.display().to_string()).collect::<Vec<_>>(),"subjects":per_subject}));
}

fn main() {
    let a = Args::parse();
    quiet_panics();
    match a.mode.as_str() {
        "drive" => drive(&a),
        "group" => group(&a),
        "replay" => replay(&a),
        "witness" => witness_child(&a),
        "subjects" => {
            for s in subjects() {
                println!("{s}");
            }
        }
        m => {
            eprintln!("c09: unknown mode {m}");
            std::process::exit(2)
        }
    }
}
