//! C09 — compressed integer vectors return every stored value unchanged.
//! Runs the real zipora containers (IntVec<T>, UintVector, UintVecMin0, ZipIntVec, SortedUintVec),
//! logs every build / push / set / read as one NDJSON event; TLC judges the events against
//! spec/PackedSeq.tla (Trace_PackedSeq.tla).  Every integer is logged as its decimal string.
//!
//! The harness contains no model of any container: it generates inputs, calls through, and
//! projects what came back (decimal strings).  Index arithmetic is left to TLC (indices are
//! logged as limbs).
//!
//! modes:
//!   drive    input families (length class x value profile) per subject; each subject group runs
//!            in a child process so that a crash of the code under test is contained and reported
//!   group    (child of drive) one subject group
//!   replay   execute TLC-generated push/set histories (B2): --in <REPLAY json lines>; the state
//!            after every step was computed by TLC; equality pre-filter, traces judged by TLC
//!   witness  (child) execute one recorded crashing call; the parent logs the outcome as an event
//!   subjects list subject names
use serde_json::{json, Value};
use std::cell::Cell;
use std::fmt::Display;
use zipora::blob_store::{SortedUintVec, SortedUintVecBuilder, SortedUintVecConfig};
use zipora::containers::specialized::{IntVec, PackedInt, UintVector};
use zipora::containers::{UintVecMin0, ZipIntVec};
use zv::*;

// ---------------------------------------------------------------- values and domains

/// element type of a container under test: how an abstract input number (i128 inside the
/// type's range) becomes the typed value handed to the container
trait Ty: Copy + Display + 'static {
    const NAME: &'static str;
    const MIN: i128;
    const MAX: i128;
    fn cast(x: i128) -> Self;
}
macro_rules! ty {
    ($($t:ty),*) => {$(
        impl Ty for $t {
            const NAME: &'static str = stringify!($t);
            const MIN: i128 = <$t>::MIN as i128;
            const MAX: i128 = <$t>::MAX as i128;
            fn cast(x: i128) -> Self { x as $t }
        }
    )*};
}
ty!(u8, u16, u32, u64, i8, i16, i32, i64, usize);

fn idx(i: usize) -> Value {
    limbs(i as u64)
}

// ---------------------------------------------------------------- input families

const PROFILES: &[&str] = &[
    "const_lo", "const_hi", "const_rand", "sorted", "dense", "small", "full", "minmax", "outliers", "allbits", "gap", "alt",
    "arith", "runs", "hi_small", "lo_small", "tail_outlier", "desc",
];

fn rand_in(r: &mut Rng, lo: i128, hi: i128) -> i128 {
    let span = (hi - lo) as u128 + 1;
    lo + (((r.next() as u128) << 64 | r.next() as u128) % span) as i128
}

/// one input sequence of n numbers inside [lo, hi] (inputs only: TLC judges what comes back)
fn gen(profile: &str, n: usize, lo: i128, hi: i128, r: &mut Rng) -> Vec<i128> {
    let span = hi - lo;
    let zero = if lo <= 0 && hi >= 0 { 0 } else { lo };
    let clamp = |x: i128| x.max(lo).min(hi);
    let mut v = Vec::with_capacity(n);
    // ---- width sweeps: "w<k>", "dw<k>", "bs<k>" (k = a bit width the container can choose)
    // ---- deceptive samples: "dec_<shape>_<out>".  The data looks sorted / constant / small-range / arithmetic on
    // every position a sampling analysis would look at (the first and last 8 elements, every (n/16)-th element and
    // its neighbours, the first 128 elements, and - for long inputs - the first 1000), and has one to three
    // outliers (above the maximum / below the minimum of everything else, or both) at other positions.
    if let Some(rest) = profile.strip_prefix("dec_") {
        let (shape, out) = rest.split_once('_').unwrap_or((rest, "hi"));
        // the ordinary values live in a window well inside the domain (non-negative for signed types, so that
        // their 64-bit images ascend with the values); the outliers are the domain's extremes
        let w_lo = zero + span / 8;
        let w_hi = (zero + span / 4).max(w_lo + 1).min(hi);
        let room = w_hi - w_lo;
        let mut x = w_lo;
        let step = (room / (n as i128 + 1)).max(0);
        let c = rand_in(r, w_lo, w_hi);
        for i in 0..n {
            v.push(match shape {
                "sorted" => {
                    x = (x + rand_in(r, 0, step.min(50))).min(w_hi);
                    x
                }
                "arith" => (w_lo + step.min(7).max(if room >= n as i128 { 1 } else { 0 }) * i as i128).min(w_hi),
                "const" => c,
                _ => (w_lo + rand_in(r, 0, 15.min(room))).min(w_hi), // "small"
            });
        }
        if shape == "small" && n >= 8 {
            // ascending ends, so that an analysis of the ends takes the input for sorted
            v[..4].sort_unstable();
            v[n - 4..].sort_unstable();
            let (a, b) = (v[0].min(v[n - 4]), v[3].max(v[n - 1]));
            v[0] = a;
            v[n - 1] = b;
        }
        if n >= 24 {
            let stride = (n / 16).max(1);
            let sampled = |p: usize| p < 8 || p + 8 >= n || p % stride == 0 || (p + 1) % stride == 0 || p % stride == 1;
            let mut spots: Vec<usize> = vec![];
            for want in [n / 2, if n > 300 { n - 40 } else { n * 3 / 4 }, if n > 1100 { 1000 + (n - 1000) / 2 } else { n / 3 }, if n > 200 { 150 } else { n / 4 }] {
                let mut p = want.min(n - 9);
                while p > 8 && (sampled(p) || spots.contains(&p)) {
                    p -= 1;
                }
                if p > 8 && !spots.contains(&p) {
                    spots.push(p);
                }
            }
            let highs = [hi, hi - rand_in(r, 0, 3.min(span)), w_hi + (hi - w_hi) / 2];
            let lows = [lo, lo + rand_in(r, 0, 3.min(span)), zero.min(w_lo)];
            for (j, &p) in spots.iter().take(if n % 2 == 0 { 1 } else { 3 }).enumerate() {
                v[p] = match out {
                    "hi" => highs[j % 3],
                    "lo" => lows[j % 3],
                    _ => if j % 2 == 0 { highs[j % 3] } else { lows[j % 3] },
                };
            }
            // one interior element only just outside the range of the ends
            if let Some(&p) = spots.get(3) {
                v[p] = if out == "lo" { (v[0] - 1).max(lo) } else { (v[n - 1] + 1).min(hi) };
            }
        }
        return v;
    }
    // ---- field-width boundaries: the range ("r") or the largest adjacent difference ("dr") is exactly 2^k ("z")
    // or 2^k + 1 ("p") - one past what k bits hold (2^k - 1 is the w<k> / dw<k> family)
    let edge = |pre: &str| -> Option<(u32, i128)> {
        let rest = profile.strip_prefix(pre)?;
        let d = if rest.ends_with('z') { 0 } else if rest.ends_with('p') { 1 } else { return None };
        rest[..rest.len() - 1].parse::<u32>().ok().map(|k| (k, d))
    };
    if let Some((k, d)) = edge("dr") {
        let big = (1i128 << k) + d;
        let mut x = lo;
        // the big step as the first, a middle or the last difference
        let at = [0usize, n / 2, n.saturating_sub(2)][((k as i128 + d) % 3) as usize];
        for i in 0..n {
            v.push(clamp(x));
            x = clamp(x + if i == at { big } else { rand_in(r, 0, 3) });
        }
        return v;
    }
    if let Some((k, d)) = edge("r") {
        let top = ((1i128 << k) + d).min(span);
        let base = if k % 2 == 0 || lo + top > hi { lo } else if lo < 0 && top <= hi { 0 } else { hi - top };
        for _ in 0..n {
            v.push(clamp(base + rand_in(r, 0, top / 2)));
        }
        if n >= 2 {
            // the maximum as the first, a middle (first of the second block of 64) or the last element, the minimum
            // next to it (same block, so that the in-block offset is the whole range as well)
            let b = [0usize, 64.min(n - 2), n - 1][((k as i128 + d) % 3) as usize];
            let a = if b + 1 < n { b + 1 } else { b - 1 };
            v[a] = base;
            v[b] = clamp(base + top);
        }
        return v;
    }
    if let Some(k) = profile.strip_prefix("dw").and_then(|x| x.parse::<u32>().ok()) {
        // sorted, adjacent differences spanning exactly k bits: the largest one (2^k - 1, top bit of the
        // delta field set) right at the start, in the middle and as the very last step
        // (33 bits: the only legal 33-bit delta is 2^32 itself, the threshold of the delta strategy)
        let big = if k == 33 { 1i128 << 32 } else { (1i128 << k) - 1 };
        let nbig = 3.min(n.saturating_sub(1)) as i128;
        let small_max = (((hi - lo) - nbig * big) / (n as i128 + 1)).min(big).max(0);
        let mut x = lo;
        for i in 0..n {
            v.push(clamp(x));
            let step = if i == 0 || i + 2 == n || i == n / 2 { big } else { rand_in(r, 0, small_max.min(1 << 20)) };
            x = clamp(x + step);
        }
        return v;
    }
    if let Some(k) = profile.strip_prefix("bs").and_then(|x| x.parse::<u32>().ok()) {
        // block-structured: the block bases span exactly k bits (top bit set in the upper half of the
        // blocks), the offsets inside a block are tiny; the last (partial) block sits at the very top
        let top = ((1i128 << k) - 1).min(span);
        let nb = (n + 63) / 64;
        for i in 0..n {
            let b = i / 64;
            let base = if b + 1 == nb {
                top - 15
            } else if b % 2 == 1 {
                top / 2 + 1 + rand_in(r, 0, (top / 2 - 16).max(0))
            } else {
                rand_in(r, 0, (top / 2 - 16).max(0))
            };
            v.push(clamp(lo + base.max(0) + rand_in(r, 0, 15)));
        }
        if n > 0 {
            v[0] = lo; // the smallest base is the domain's minimum
        }
        return v;
    }
    if let Some(k) = profile.strip_prefix('w').and_then(|x| x.parse::<u32>().ok()) {
        // unsorted values whose range is exactly k bits wide: offsets 0 and 2^k - 1 both present, more than
        // half of the offsets have the top bit of the k-bit field set; the base alternates between the
        // bottom and the top of the domain (for signed types: all negative / all non-negative)
        let top = ((1i128 << k) - 1).min(span);
        let base = if k % 2 == 0 || lo + top > hi { lo } else if lo < 0 && top <= hi { 0 } else { hi - top };
        for i in 0..n {
            let off = match i % 4 {
                0 => rand_in(r, 0, top),
                _ => rand_in(r, top / 2 + (top & 1), top),
            };
            v.push(clamp(base + off));
        }
        if n >= 2 {
            // the minimum: anywhere, or (even widths) next to the end, in the remainder of a chunked scan
            let (a, b) = (if k % 2 == 0 && n >= 3 { n - 2 } else { r.below(n as u64) as usize }, n - 1);
            v[a] = base;
            v[b] = clamp(base + top); // the last element carries the all-ones offset
            if a == b {
                v[0] = base;
            }
        }
        return v;
    }
    match profile {
        "const_lo" => v.resize(n, lo),
        "const_hi" => v.resize(n, hi),
        "const_rand" => {
            let c = rand_in(r, lo, hi);
            v.resize(n, c)
        }
        "sorted" => {
            let start = rand_in(r, lo, lo + span / 2);
            let step = ((hi - start) / (n as i128 + 1)).min(100).max(0);
            let mut x = start;
            for _ in 0..n {
                v.push(x);
                x = clamp(x + rand_in(r, 0, step));
            }
        }
        "desc" => {
            // descending: the minimum is the LAST element (the remainder of chunked min/max scans), never sorted
            let start = rand_in(r, lo + span / 2, hi);
            let step = ((start - lo) / (n as i128 + 1)).min(100).max(0);
            let mut x = start;
            for _ in 0..n {
                v.push(x);
                x = clamp(x - 1 - rand_in(r, 0, step));
            }
        }
        "dense" => {
            let mut x = clamp(zero + rand_in(r, 0, 50));
            for _ in 0..n {
                v.push(x);
                x = clamp(x + rand_in(r, 0, 3));
            }
        }
        "small" => {
            let range = *r.pick(&[2i128, 16, 1000]);
            let base = rand_in(r, lo, (hi - range).max(lo));
            for _ in 0..n {
                v.push(clamp(base + rand_in(r, 0, range - 1)));
            }
        }
        "full" => {
            for _ in 0..n {
                v.push(rand_in(r, lo, hi));
            }
        }
        "minmax" => {
            let c = [lo, hi, clamp(lo + 1), clamp(hi - 1), zero];
            for _ in 0..n {
                v.push(*r.pick(&c));
            }
        }
        "outliers" => {
            for _ in 0..n {
                v.push(clamp(zero + rand_in(r, 0, 15)));
            }
            if n > 0 {
                for _ in 0..(1 + n / 500) {
                    let p = r.below(n as u64) as usize;
                    v[p] = match r.below(4) {
                        0 => hi,
                        1 => clamp(hi - rand_in(r, 0, 3)),
                        2 => lo,
                        _ => rand_in(r, lo + span / 2, hi),
                    };
                }
            }
        }
        "tail_outlier" => {
            // unsorted block-structured data: every block of 64 sits around its own base (overall range
            // wide, in-block offsets tiny); the only large in-block offsets are in the trailing PARTIAL
            // block (the last n % 64 / n % 128 elements) and in the very last element
            let step = (span / 64).max(1).min(70_000);
            for k in 0..n {
                let blk = (k / 64) as i128;
                let base = lo + ((blk * 7919) % 61) * step;
                v.push(clamp(base + rand_in(r, 0, 15)));
            }
            if n > 0 {
                let tail = n % 64;
                if tail > 1 {
                    let p = n - 1 - (r.below(tail as u64 - 1) as usize);
                    v[p] = clamp(v[p] + span / 2);
                }
                v[n - 1] = match r.below(3) {
                    0 => hi,
                    1 => clamp(lo + span / 2 + rand_in(r, 0, 1000)),
                    _ => clamp(v[n - 1] + span / 3),
                };
            }
        }
        "allbits" => {
            // the upper half of the range (top bit set for unsigned types); signed: both extremes
            for k in 0..n {
                if lo < 0 && k % 2 == 1 {
                    v.push(rand_in(r, lo, lo + span / 4));
                } else {
                    v.push(rand_in(r, hi - span / 4, hi));
                }
            }
        }
        "gap" => {
            // strictly increasing (while the type allows) with one giant gap in the middle
            let base = clamp(zero + rand_in(r, 0, 10));
            let k = if n == 0 { 0 } else { r.range(0, n as u64 - 1) as usize };
            let g = (hi - base) / 2;
            for i in 0..n {
                let x = base + i as i128 + if i > k { g } else { 0 };
                v.push(clamp(x));
            }
        }
        "alt" => {
            for k in 0..n {
                v.push(if k % 2 == 0 { lo } else { hi });
            }
        }
        "arith" => {
            let d = (*r.pick(&[1i128, 7, 1000])).min(span / (n as i128 + 1));
            let base = rand_in(r, lo, hi - d * n as i128);
            for k in 0..n {
                v.push(clamp(base + d * k as i128));
            }
        }
        "runs" => {
            let base = rand_in(r, lo, (hi - 40).max(lo));
            while v.len() < n {
                let x = clamp(base + rand_in(r, 0, 40));
                let len = r.range(1, 20) as usize;
                for _ in 0..len.min(n - v.len()) {
                    v.push(x);
                }
            }
        }
        "hi_small" => {
            for _ in 0..n {
                v.push(clamp(hi - rand_in(r, 0, 15)));
            }
        }
        "lo_small" => {
            for _ in 0..n {
                v.push(clamp(lo + rand_in(r, 0, 15)));
            }
        }
        _ => panic!("unknown profile {profile}"),
    }
    v
}

// ---------------------------------------------------------------- subjects

/// what one read delivered
enum Rd {
    Val(String),
    None,
    Err,
}
enum Rd2 {
    Val(String, String),
    Err,
}

/// Uniform view of a container under test.  Every method is a thin call-through; `None`
/// (outer) for an operation the type does not offer.
trait Cont {
    fn len(&self) -> usize;
    fn get(&self, i: usize) -> Rd;
    fn get2(&self, _i: usize) -> Option<Rd2> {
        None
    }
    fn has_get2(&self) -> bool {
        false
    }
    fn has_fast_get(&self) -> bool {
        false
    }
    /// bits per element handed to fast_get
    fn bits(&self) -> usize {
        0
    }
    /// the static fast_get over the container's raw data
    fn fast_get(&self, _i: usize) -> Option<Rd> {
        None
    }
    /// (block size, number of blocks) where get_block is offered
    fn blocks(&self) -> Option<(usize, usize)> {
        None
    }
    fn get_block(&self, _b: usize) -> Option<Result<Vec<String>, String>> {
        None
    }
    fn push(&mut self, _x: i128) -> Option<Result<(), String>> {
        None
    }
    fn set(&mut self, _i: usize, _x: i128) -> Option<()> {
        None
    }
    /// builder subjects: finish(); None where there is nothing to finish
    fn finish(&mut self) -> Option<Result<(), String>> {
        None
    }
    // ---- further entry points (None = not offered by the type)
    fn is_empty(&self) -> Option<bool> {
        None
    }
    fn back(&self) -> Option<Rd> {
        None
    }
    fn clear(&mut self) -> Option<()> {
        None
    }
    fn resize(&mut self, _n: usize) -> Option<()> {
        None
    }
    fn shrink(&mut self) -> Option<()> {
        None
    }
    /// Clone::clone
    fn dup(&self) -> Option<Box<dyn Cont>> {
        None
    }
    /// the complete content read through another public view of the same object
    fn other_view(&self) -> Option<Vec<String>> {
        None
    }
    /// build a second container from ys and swap contents with it
    fn swap_new(&mut self, _ys: &[i128]) -> Option<()> {
        None
    }
    /// extra events recorded during construction (logged right after the build event)
    fn notes(&mut self) -> Vec<Value> {
        vec![]
    }
    /// the decimal string of input number x as the typed value handed to the container
    fn show(&self, x: i128) -> String;
}

// ---- IntVec<T>
struct IV<T: PackedInt + Ty>(IntVec<T>);
impl<T: PackedInt + Ty> Cont for IV<T> {
    fn len(&self) -> usize {
        self.0.len()
    }
    fn is_empty(&self) -> Option<bool> {
        Some(self.0.is_empty())
    }
    fn dup(&self) -> Option<Box<dyn Cont>> {
        Some(Box::new(IV(self.0.clone())))
    }
    fn get(&self, i: usize) -> Rd {
        match self.0.get(i) {
            Some(x) => Rd::Val(x.to_string()),
            None => Rd::None,
        }
    }
    fn show(&self, x: i128) -> String {
        T::cast(x).to_string()
    }
}
fn build_iv<T: PackedInt + Ty>(ctor: &str, xs: &[i128]) -> Result<Box<dyn Cont>, String> {
    let vals: Vec<T> = xs.iter().map(|&x| T::cast(x)).collect();
    let r = match ctor {
        "from_slice" => IntVec::<T>::from_slice(&vals),
        "from_slice_bulk" => IntVec::<T>::from_slice_bulk(&vals),
        "from_slice_bulk_simd" => IntVec::<T>::from_slice_bulk_simd(&vals),
        _ => panic!("ctor"),
    };
    match r {
        Ok(v) => Ok(Box::new(IV(v))),
        Err(e) => Err(e.to_string()),
    }
}

// ---- UintVector
struct UV(UintVector);
impl Cont for UV {
    fn len(&self) -> usize {
        self.0.len()
    }
    fn is_empty(&self) -> Option<bool> {
        Some(self.0.is_empty())
    }
    fn get(&self, i: usize) -> Rd {
        match self.0.get(i) {
            Some(x) => Rd::Val(x.to_string()),
            None => Rd::None,
        }
    }
    fn push(&mut self, x: i128) -> Option<Result<(), String>> {
        Some(self.0.push(x as u32).map_err(|e| e.to_string()))
    }
    fn show(&self, x: i128) -> String {
        (x as u32).to_string()
    }
}

// ---- UintVecMin0: build_from_X returns (vector of value - min, min); element i is min + get(i)
#[derive(Clone, Copy)]
enum Min {
    Usize(usize),
    U32(u32),
    I32(i32),
}
impl Min {
    fn plus(self, w: usize) -> String {
        match self {
            Min::Usize(m) => m.wrapping_add(w).to_string(),
            Min::U32(m) => m.wrapping_add(w as u32).to_string(),
            Min::I32(m) => m.wrapping_add(w as i32).to_string(),
        }
    }
    /// the wire value of x, computed exactly as the build_from_X function of that type does
    fn wire(self, x: i128) -> usize {
        match self {
            Min::Usize(m) => (x as usize).wrapping_sub(m),
            Min::U32(m) => (x as u32).wrapping_sub(m) as usize,
            Min::I32(m) => (x as i32).wrapping_sub(m) as usize,
        }
    }
    fn show(self, x: i128) -> String {
        match self {
            Min::Usize(_) => (x as usize).to_string(),
            Min::U32(_) => (x as u32).to_string(),
            Min::I32(_) => (x as i32).to_string(),
        }
    }
}
struct M0 {
    v: UintVecMin0,
    min: Min,
}
impl Cont for M0 {
    fn len(&self) -> usize {
        self.v.size()
    }
    fn is_empty(&self) -> Option<bool> {
        Some(self.v.is_empty())
    }
    fn back(&self) -> Option<Rd> {
        Some(Rd::Val(self.min.plus(self.v.back())))
    }
    fn clear(&mut self) -> Option<()> {
        self.v.clear();
        // clear() resets the width; a vector that is filled again stores raw values
        self.min = match self.min {
            Min::Usize(_) => Min::Usize(0),
            Min::U32(_) => Min::U32(0),
            Min::I32(_) => Min::I32(0),
        };
        Some(())
    }
    fn resize(&mut self, n: usize) -> Option<()> {
        self.v.resize(n);
        Some(())
    }
    fn shrink(&mut self) -> Option<()> {
        self.v.shrink_to_fit();
        Some(())
    }
    fn dup(&self) -> Option<Box<dyn Cont>> {
        Some(Box::new(M0 { v: self.v.clone(), min: self.min }))
    }
    fn get(&self, i: usize) -> Rd {
        Rd::Val(self.min.plus(self.v.get(i)))
    }
    fn has_get2(&self) -> bool {
        true
    }
    fn has_fast_get(&self) -> bool {
        true
    }
    fn get2(&self, i: usize) -> Option<Rd2> {
        let [a, b] = self.v.get2(i);
        Some(Rd2::Val(self.min.plus(a), self.min.plus(b)))
    }
    fn bits(&self) -> usize {
        self.v.uintbits()
    }
    fn fast_get(&self, i: usize) -> Option<Rd> {
        Some(match UintVecMin0::fast_get(self.v.data(), self.v.uintbits(), self.v.uintmask(), i) {
            Ok(w) => Rd::Val(self.min.plus(w)),
            Err(_) => Rd::Err,
        })
    }
    fn push(&mut self, x: i128) -> Option<Result<(), String>> {
        self.v.push_back(self.min.wire(x));
        Some(Ok(()))
    }
    fn set(&mut self, i: usize, x: i128) -> Option<()> {
        self.v.set(i, self.min.wire(x));
        Some(())
    }
    fn show(&self, x: i128) -> String {
        self.min.show(x)
    }
}

// ---- ZipIntVec
struct ZI {
    v: ZipIntVec,
    u32_: bool,
}
impl Cont for ZI {
    fn len(&self) -> usize {
        self.v.size()
    }
    fn is_empty(&self) -> Option<bool> {
        Some(self.v.is_empty())
    }
    fn back(&self) -> Option<Rd> {
        Some(Rd::Val(self.v.back().to_string()))
    }
    fn clear(&mut self) -> Option<()> {
        self.v.clear();
        Some(())
    }
    fn resize(&mut self, n: usize) -> Option<()> {
        self.v.resize(n);
        Some(())
    }
    fn shrink(&mut self) -> Option<()> {
        self.v.shrink_to_fit();
        Some(())
    }
    fn dup(&self) -> Option<Box<dyn Cont>> {
        Some(Box::new(ZI { v: self.v.clone(), u32_: self.u32_ }))
    }
    fn other_view(&self) -> Option<Vec<String>> {
        // inner() exposes the offsets, min_val() the base
        let (inner, m) = (self.v.inner(), self.v.min_val());
        Some((0..inner.size()).map(|i| m.wrapping_add(inner.get(i)).to_string()).collect())
    }
    fn swap_new(&mut self, ys: &[i128]) -> Option<()> {
        let vals: Vec<usize> = ys.iter().map(|&x| x as usize).collect();
        let mut other = ZipIntVec::build_from_usize(&vals);
        self.v.swap(&mut other);
        Some(())
    }
    fn get(&self, i: usize) -> Rd {
        Rd::Val(self.v.get(i).to_string())
    }
    fn has_get2(&self) -> bool {
        true
    }
    fn has_fast_get(&self) -> bool {
        true
    }
    fn get2(&self, i: usize) -> Option<Rd2> {
        let [a, b] = self.v.get2(i);
        Some(Rd2::Val(a.to_string(), b.to_string()))
    }
    fn bits(&self) -> usize {
        self.v.uintbits()
    }
    fn fast_get(&self, i: usize) -> Option<Rd> {
        Some(match ZipIntVec::fast_get(self.v.data(), self.v.uintbits(), self.v.uintmask(), self.v.min_val(), i) {
            Ok(w) => Rd::Val(w.to_string()),
            Err(_) => Rd::Err,
        })
    }
    fn push(&mut self, x: i128) -> Option<Result<(), String>> {
        self.v.push_back(x as usize);
        Some(Ok(()))
    }
    fn set(&mut self, i: usize, x: i128) -> Option<()> {
        self.v.set(i, x as usize);
        Some(())
    }
    fn show(&self, x: i128) -> String {
        if self.u32_ {
            (x as u32).to_string()
        } else {
            (x as usize).to_string()
        }
    }
}

// ---- SortedUintVec through its builder
struct SV {
    b: Option<SortedUintVecBuilder>,
    v: Option<SortedUintVec>,
    notes: Vec<Value>,
}
impl SV {
    fn vec(&self) -> &SortedUintVec {
        self.v.as_ref().expect("finished")
    }
}
impl Cont for SV {
    fn len(&self) -> usize {
        match (&self.v, &self.b) {
            (Some(v), _) => v.len(),
            (_, Some(b)) => b.len(),
            _ => 0,
        }
    }
    fn get(&self, i: usize) -> Rd {
        match self.vec().get(i) {
            Ok(x) => Rd::Val(x.to_string()),
            Err(_) => Rd::Err,
        }
    }
    fn has_get2(&self) -> bool {
        true
    }
    fn get2(&self, i: usize) -> Option<Rd2> {
        Some(match self.vec().get2(i) {
            Ok((a, b)) => Rd2::Val(a.to_string(), b.to_string()),
            Err(_) => Rd2::Err,
        })
    }
    fn blocks(&self) -> Option<(usize, usize)> {
        let v = self.vec();
        Some((v.config().block_size(), v.num_blocks()))
    }
    fn get_block(&self, b: usize) -> Option<Result<Vec<String>, String>> {
        let v = self.vec();
        let mut out = vec![0u64; v.config().block_size()];
        Some(match v.get_block(b, &mut out) {
            Ok(()) => Ok(out.iter().map(|x| x.to_string()).collect()),
            Err(e) => Err(e.to_string()),
        })
    }
    fn push(&mut self, x: i128) -> Option<Result<(), String>> {
        Some(self.b.as_mut()?.push(x as u64).map_err(|e| e.to_string()))
    }
    fn is_empty(&self) -> Option<bool> {
        Some(match (&self.v, &self.b) {
            (Some(v), _) => v.is_empty(),
            (_, Some(b)) => b.is_empty(),
            _ => true,
        })
    }
    fn notes(&mut self) -> Vec<Value> {
        std::mem::take(&mut self.notes)
    }
    fn finish(&mut self) -> Option<Result<(), String>> {
        let b = self.b.take()?;
        // what the builder reports right before finish()
        self.notes.push(json!({"op":"len","of":"builder","n":b.len(),"empty":b.is_empty()}));
        Some(match b.finish() {
            Ok(v) => {
                self.v = Some(v);
                Ok(())
            }
            Err(e) => Err(e.to_string()),
        })
    }
    fn show(&self, x: i128) -> String {
        (x as u64).to_string()
    }
}
const SORTED_CFGS: &[&str] = &["default", "perf", "mem", "wide", "odd"];
/// every preset with use_simd flipped, the narrowest legal widths (8/16), and the memory-pool constructor:
/// bound at three block sizes (b6 only for the pool)
const SORTED_TWINS: &[&str] = &["default_ns", "perf_ns", "mem_s", "wide_ns", "odd_s", "min", "min_ns", "pool"];
fn sorted_cfg(variant: &str) -> SortedUintVecConfig {
    // variant = "<cfg>:b<log2>"; <cfg> may carry a suffix _s / _ns (use_simd on / off), or be
    // "sw<sample_width>o<offset_width>" of the width sweep
    let mut it = variant.split(':');
    let c0 = it.next().unwrap_or("default");
    let log2: u8 = it.next().and_then(|b| b[1..].parse().ok()).unwrap_or(6);
    let (c, simd) = match c0 {
        x if x.ends_with("_ns") => (&x[..x.len() - 3], Some(false)),
        x if x.ends_with("_s") => (&x[..x.len() - 2], Some(true)),
        x => (x, None),
    };
    if let Some(rest) = c.strip_prefix("sw") {
        let mut q = rest.split('o');
        let sw: u8 = q.next().and_then(|x| x.parse().ok()).unwrap_or(32);
        let ow: u8 = q.next().and_then(|x| x.parse().ok()).unwrap_or(16);
        return SortedUintVecConfig { log2_block_units: log2, offset_width: ow, sample_width: sw, use_simd: simd.unwrap_or(true) };
    }
    let mut cfg = match c {
        "min" => SortedUintVecConfig { log2_block_units: 6, offset_width: 8, sample_width: 16, use_simd: true },
        "perf" => SortedUintVecConfig::performance_optimized(),
        "mem" => SortedUintVecConfig::memory_optimized(),
        "wide" => SortedUintVecConfig { log2_block_units: 6, offset_width: 32, sample_width: 64, use_simd: true },
        // accepted by validate(); widths that are not multiples of 4/8 bits, portable extraction
        "odd" => SortedUintVecConfig { log2_block_units: 6, offset_width: 13, sample_width: 61, use_simd: false },
        _ => SortedUintVecConfig::default(),
    };
    cfg.log2_block_units = log2;
    if let Some(f) = simd {
        cfg.use_simd = f;
    }
    cfg
}

// ---- naming

const INT_TYPES: &[&str] = &["u8", "u16", "u32", "u64", "i8", "i16", "i32", "i64"];
const CTORS: &[&str] = &["from_slice", "from_slice_bulk", "from_slice_bulk_simd"];

fn subjects() -> Vec<String> {
    let mut v = vec![];
    for t in INT_TYPES {
        for c in CTORS {
            v.push(format!("intvec:{t}:{c}"));
        }
    }
    v.push("uintvec:build_from".into());
    v.push("uintvec:push".into());
    v.push("uintvec:with_capacity".into());
    for t in ["usize", "u32", "i32", "push", "new_set", "resize_set", "risk"] {
        v.push(format!("uvm0:{t}"));
    }
    for t in ["usize", "u32", "push", "new_set", "resize_set", "risk"] {
        v.push(format!("zipint:{t}"));
    }
    for c in SORTED_CFGS {
        for b in 4..=8 {
            v.push(format!("sorted:{c}:b{b}"));
        }
    }
    for c in SORTED_TWINS {
        for b in [4, 6, 8] {
            if *c != "pool" || b == 6 {
                v.push(format!("sorted:{c}:b{b}"));
            }
        }
    }
    // every sample_width 16..64 with offset widths 8..32, both use_simd settings, all block sizes
    v.push("sorted:sweep".into());
    // the constructors of empty containers (new / new_empty / default / with_config)
    for f in ["intvec", "uintvec", "uvm0", "zipint", "sorted"] {
        v.push(format!("{f}:empty"));
    }
    v
}
fn fam_of(name: &str) -> &str {
    name.split(':').next().unwrap_or("")
}
fn variant_of(name: &str) -> &str {
    name.splitn(2, ':').nth(1).unwrap_or("")
}
/// subject group = unit of child-process isolation
fn group_of(name: &str) -> String {
    let p: Vec<&str> = name.split(':').collect();
    match p[0] {
        "intvec" => format!("intvec:{}", p[1]),
        _ if p[1] == "empty" => "empty".to_string(),
        "sorted" => format!("sorted:{}", p[1].trim_end_matches("_ns").trim_end_matches("_s")),
        f => f.to_string(),
    }
}
fn incremental(name: &str) -> bool {
    name.ends_with(":push") || name.ends_with(":with_capacity")
}

/// value domains of a subject: (label, lo, hi)
fn domains(name: &str) -> Vec<(&'static str, i128, i128)> {
    let p: Vec<&str> = name.split(':').collect();
    fn of<T: Ty>() -> (&'static str, i128, i128) {
        (T::NAME, T::MIN, T::MAX)
    }
    match (p[0], p[1]) {
        ("intvec", "u8") => vec![of::<u8>()],
        ("intvec", "u16") => vec![of::<u16>()],
        ("intvec", "u32") => vec![of::<u32>()],
        ("intvec", "u64") => vec![of::<u64>()],
        ("intvec", "i8") => vec![of::<i8>()],
        ("intvec", "i16") => vec![of::<i16>()],
        ("intvec", "i32") => vec![of::<i32>()],
        ("intvec", "i64") => vec![of::<i64>()],
        ("uintvec", _) => vec![of::<u32>()],
        // UintVecMin0 / ZipIntVec document a 58-bit fast path: both the documented range and all 64 bits
        ("uvm0", "usize") | ("uvm0", "push") | ("zipint", "usize") | ("zipint", "push") => {
            vec![("u58", 0, (1i128 << 58) - 1), ("u64", 0, u64::MAX as i128)]
        }
        ("uvm0", "risk") | ("zipint", "risk") => vec![("u58", 0, (1i128 << 58) - 1)],
        ("uvm0", "u32") | ("zipint", "u32") => vec![of::<u32>()],
        ("uvm0", "i32") => vec![of::<i32>()],
        ("uvm0", "new_set") | ("uvm0", "resize_set") | ("zipint", "new_set") | ("zipint", "resize_set") => {
            vec![("u64", 0, u64::MAX as i128)]
        }
        ("sorted", c) => {
            let sw = sorted_cfg(c).sample_width as u32;
            let fit = ("fit", 0i128, (1i128 << sw.min(64)) - 1);
            // "ow": the whole range of one in-block offset (offset_width bits), so that the offsets stored in a
            // block reach the top bit of the offset field
            let ow = sorted_cfg(c).offset_width as u32;
            let owd = ("ow", 0i128, (1i128 << ow.min(64)) - 1);
            if sw < 64 {
                vec![fit, ("u64", 0, u64::MAX as i128), ("u20", 0, (1 << 20) - 1), owd]
            } else {
                vec![fit, ("u20", 0, (1 << 20) - 1), owd]
            }
        }
        _ => vec![],
    }
}

/// bulk construction of subject `name` from xs
fn build(name: &str, xs: &[i128]) -> Result<Box<dyn Cont>, String> {
    let p: Vec<&str> = name.split(':').collect();
    match (p[0], p[1]) {
        ("intvec", "u8") => build_iv::<u8>(p[2], xs),
        ("intvec", "u16") => build_iv::<u16>(p[2], xs),
        ("intvec", "u32") => build_iv::<u32>(p[2], xs),
        ("intvec", "u64") => build_iv::<u64>(p[2], xs),
        ("intvec", "i8") => build_iv::<i8>(p[2], xs),
        ("intvec", "i16") => build_iv::<i16>(p[2], xs),
        ("intvec", "i32") => build_iv::<i32>(p[2], xs),
        ("intvec", "i64") => build_iv::<i64>(p[2], xs),
        ("uintvec", "build_from") => {
            let vals: Vec<u32> = xs.iter().map(|&x| x as u32).collect();
            match UintVector::build_from(&vals) {
                Ok(v) => Ok(Box::new(UV(v))),
                Err(e) => Err(e.to_string()),
            }
        }
        ("uvm0", "usize") => {
            let vals: Vec<usize> = xs.iter().map(|&x| x as usize).collect();
            let (v, m) = UintVecMin0::build_from_usize(&vals);
            Ok(Box::new(M0 { v, min: Min::Usize(m) }))
        }
        ("uvm0", "u32") => {
            let vals: Vec<u32> = xs.iter().map(|&x| x as u32).collect();
            let (v, m) = UintVecMin0::build_from_u32(&vals);
            Ok(Box::new(M0 { v, min: Min::U32(m) }))
        }
        ("uvm0", "i32") => {
            let vals: Vec<i32> = xs.iter().map(|&x| x as i32).collect();
            let (v, m) = UintVecMin0::build_from_i32(&vals);
            Ok(Box::new(M0 { v, min: Min::I32(m) }))
        }
        // new(num, max_val) and then set() every element
        ("uvm0", "new_set") | ("uvm0", "resize_set") => {
            let vals: Vec<usize> = xs.iter().map(|&x| x as usize).collect();
            let max = vals.iter().copied().max().unwrap_or(0);
            let mut v = if p[1] == "new_set" {
                UintVecMin0::new(vals.len(), max)
            } else {
                // an empty vector sized by resize_with_wire_max_val / resize_with_uintbits (alternating)
                let mut v = UintVecMin0::new_empty();
                if vals.len() % 2 == 0 {
                    v.resize_with_wire_max_val(vals.len(), max);
                } else {
                    v.resize_with_uintbits(vals.len(), UintVecMin0::compute_uintbits(max));
                }
                v
            };
            for (i, &x) in vals.iter().enumerate() {
                v.set(i, x);
            }
            Ok(Box::new(M0 { v, min: Min::Usize(0) }))
        }
        // the packed bytes of a built vector handed to a fresh one through risk_set_data (fast path widths only)
        ("uvm0", "risk") | ("zipint", "risk") => {
            let vals: Vec<usize> = xs.iter().map(|&x| x as usize).collect();
            let (src, m) = UintVecMin0::build_from_usize(&vals);
            let (bits, n) = (src.uintbits(), src.size());
            if bits > 58 {
                return Err("risk_set_data: documented limit of 58 bits".into());
            }
            let size = UintVecMin0::compute_mem_size(bits, n);
            let mut buf = vec![0u8; size].into_boxed_slice();
            let k = size.min(src.data().len());
            buf[..k].copy_from_slice(&src.data()[..k]);
            let ptr = Box::into_raw(buf) as *mut u8;
            if p[0] == "uvm0" {
                let mut v = UintVecMin0::new_empty();
                // SAFETY: ptr owns exactly compute_mem_size(bits, n) bytes from the global allocator
                unsafe { v.risk_set_data(ptr, n, bits) };
                Ok(Box::new(M0 { v, min: Min::Usize(m) }))
            } else {
                let mut v = ZipIntVec::new_empty();
                // SAFETY: as above
                unsafe { v.risk_set_data(ptr, n, m, bits) };
                Ok(Box::new(ZI { v, u32_: false }))
            }
        }
        // new(num, min, max) / resize_with_range on an empty vector, then set() every element
        ("zipint", "new_set") | ("zipint", "resize_set") => {
            let vals: Vec<usize> = xs.iter().map(|&x| x as usize).collect();
            let (mn, mx) = (vals.iter().copied().min().unwrap_or(0), vals.iter().copied().max().unwrap_or(0));
            // the range constructors require min < max
            let (mn, mx) = if mn < mx {
                (mn, mx)
            } else if mx < usize::MAX {
                (mn, mx + 1)
            } else {
                (mn - 1, mx)
            };
            let mut v = if p[1] == "new_set" {
                ZipIntVec::new(vals.len(), mn, mx)
            } else {
                let mut v = ZipIntVec::new_empty();
                v.resize_with_range(vals.len(), mn, mx);
                v
            };
            for (i, &x) in vals.iter().enumerate() {
                v.set(i, x);
            }
            Ok(Box::new(ZI { v, u32_: false }))
        }
        ("zipint", "usize") => {
            let vals: Vec<usize> = xs.iter().map(|&x| x as usize).collect();
            Ok(Box::new(ZI { v: ZipIntVec::build_from_usize(&vals), u32_: false }))
        }
        ("zipint", "u32") => {
            let vals: Vec<u32> = xs.iter().map(|&x| x as u32).collect();
            Ok(Box::new(ZI { v: ZipIntVec::build_from_u32(&vals), u32_: true }))
        }
        ("sorted", _) if xs.len() % 2 == 1 => {
            // odd lengths go through extend(), the twin of push()
            let mut b = SortedUintVecBuilder::with_config(sorted_cfg(variant_of(name)));
            if let Err(e) = b.extend(xs.iter().map(|&x| x as u64)) {
                return Err(format!("push refused: {e}"));
            }
            let mut c: Box<dyn Cont> = Box::new(SV { b: Some(b), v: None, notes: vec![json!({"op":"note","via":"extend"})] });
            match c.finish() {
                Some(Ok(())) => Ok(c),
                Some(Err(e)) => Err(e),
                None => Err("no finish".into()),
            }
        }
        ("sorted", _) => {
            let mut c = empty(name).ok_or("no builder")?;
            for &x in xs {
                if let Some(Err(e)) = c.push(x) {
                    return Err(format!("push refused: {e}"));
                }
            }
            match c.finish() {
                Some(Ok(())) => Ok(c),
                Some(Err(e)) => Err(e),
                None => Err("no finish".into()),
            }
        }
        _ => Err(format!("unknown subject {name}")),
    }
}

/// an empty container for incremental construction
fn empty(name: &str) -> Option<Box<dyn Cont>> {
    let p: Vec<&str> = name.split(':').collect();
    match (p[0], p[1]) {
        ("uintvec", "push") => Some(Box::new(UV(UintVector::new()))),
        ("uvm0", "push") => Some(Box::new(M0 { v: UintVecMin0::new_empty(), min: Min::Usize(0) })),
        ("zipint", "push") => Some(Box::new(ZI { v: ZipIntVec::new_empty(), u32_: false })),
        ("sorted", c) => {
            let mut b = SortedUintVecBuilder::with_config(sorted_cfg(variant_of(name)));
            if c == "pool" {
                // SecureMemoryPool::new hands out an Arc; the builder wants the pool by value
                let pool = zipora::memory::SecureMemoryPool::new(zipora::memory::SecurePoolConfig::small_secure()).ok()?;
                b = b.with_pool(std::sync::Arc::try_unwrap(pool).ok()?);
            }
            Some(Box::new(SV { b: Some(b), v: None, notes: vec![] }))
        }
        ("uintvec", "with_capacity") => Some(Box::new(UV(UintVector::with_capacity(100)))),
        _ => None,
    }
}

// ---------------------------------------------------------------- events

/// a message with every run of digits replaced by N (so that TLC can compare it for equality)
fn msgk(m: &str) -> String {
    let mut out = String::new();
    let mut in_num = false;
    for ch in m.chars() {
        if ch.is_ascii_digit() {
            if !in_num {
                out.push('N');
            }
            in_num = true;
        } else {
            in_num = false;
            out.push(ch);
        }
    }
    out
}

fn panic_ev(inop: &str, msg: &str, extra: Value) -> Value {
    let mut e = json!({"op":"panic","in":inop,"msg":msg,"msgk":msgk(msg)});
    if let (Some(o), Some(x)) = (e.as_object_mut(), extra.as_object()) {
        for (k, v) in x {
            o.insert(k.clone(), v.clone());
        }
    }
    e
}

/// the complete read-back through get(i), i in 0..len(): one event
fn ev_readback(c: &dyn Cont, cap: usize, via: &str) -> Value {
    let at = Cell::new(0usize);
    let r = guard(|| {
        let n = c.len();
        let mut out = Vec::with_capacity(n.min(cap));
        for i in 0..n.min(cap) {
            at.set(i);
            let rd = if via == "fast_get" { c.fast_get(i).unwrap_or(Rd::None) } else { c.get(i) };
            out.push(Value::String(match rd {
                Rd::Val(s) => s,
                Rd::None => "none".into(),
                Rd::Err => "err".into(),
            }));
        }
        (n, out)
    });
    match r {
        Ok((n, out)) => json!({"op":"readback","via":via,"n":n,"out":out}),
        Err(m) => panic_ev("readback", &m, json!({"via":via,"i":idx(at.get())})),
    }
}
fn ev_readback2(c: &dyn Cont, cap: usize) -> Option<Value> {
    if !c.has_get2() {
        return None;
    }
    let at = Cell::new(0usize);
    let r = guard(|| {
        let n = c.len().min(cap);
        let mut out = Vec::with_capacity(n);
        for i in 0..n.saturating_sub(1) {
            at.set(i);
            match c.get2(i) {
                Some(Rd2::Val(a, b)) => out.push(json!([a, b])),
                Some(Rd2::Err) => out.push(json!(["err", "err"])),
                None => return None,
            }
        }
        Some(out)
    });
    match r {
        Ok(Some(out)) => Some(json!({"op":"readback2","out":out})),
        Ok(None) => None,
        Err(m) => Some(panic_ev("readback2", &m, json!({"i":idx(at.get())}))),
    }
}
fn ev_readblocks(c: &dyn Cont) -> Option<Value> {
    let r = guard(|| {
        let (bs, nb) = c.blocks()?;
        let mut out: Vec<Value> = vec![];
        for b in 0..nb {
            match c.get_block(b)? {
                Ok(v) => out.extend(v.into_iter().map(Value::String)),
                Err(_) => return Some(json!({"op":"probes","g":[{"k":"get_block","i":idx(b),"bs":bs,"ok":false,"out":[]}]})),
            }
        }
        Some(json!({"op":"readblocks","bs":bs,"nb":nb,"out":out}))
    });
    match r {
        Ok(x) => x,
        Err(m) => Some(panic_ev("readblocks", &m, json!({}))),
    }
}
fn ev_get(c: &dyn Cont, i: usize, via: &str) -> Value {
    let r = guard(|| if via == "fast_get" { c.fast_get(i).unwrap_or(Rd::None) } else { c.get(i) });
    let mut e = match r {
        Ok(Rd::Val(v)) => json!({"i":idx(i),"r":[v],"how":"value"}),
        Ok(Rd::None) => json!({"i":idx(i),"r":[],"how":"none"}),
        Ok(Rd::Err) => json!({"i":idx(i),"r":[],"how":"err"}),
        Err(m) => json!({"i":idx(i),"r":[],"how":"panic","msg":m}),
    };
    e["k"] = json!(via);
    if via == "fast_get" {
        e["bits"] = json!(c.bits());
    }
    e
}
fn ev_get2(c: &dyn Cont, i: usize) -> Option<Value> {
    if !c.has_get2() {
        return None;
    }
    let r = guard(|| c.get2(i));
    Some(match r {
        Ok(None) => return None,
        Ok(Some(Rd2::Val(a, b))) => json!({"k":"get2","i":idx(i),"r":[[a, b]],"how":"value"}),
        Ok(Some(Rd2::Err)) => json!({"k":"get2","i":idx(i),"r":[],"how":"err"}),
        Err(m) => json!({"k":"get2","i":idx(i),"r":[],"how":"panic","msg":m}),
    })
}
fn ev_get_block(c: &dyn Cont, b: usize) -> Option<Value> {
    let bs = c.blocks()?.0;
    let r = guard(|| c.get_block(b));
    Some(match r {
        Ok(None) => return None,
        Ok(Some(Ok(v))) => json!({"k":"get_block","i":idx(b),"bs":bs,"ok":true,"out":v}),
        Ok(Some(Err(_))) => json!({"k":"get_block","i":idx(b),"bs":bs,"ok":false,"out":[]}),
        Err(m) => json!({"k":"get_block","i":idx(b),"bs":bs,"ok":false,"out":[],"how":"panic","msg":m}),
    })
}

struct Stats {
    events: usize,
    builds: usize,
    build_refused: usize,
    build_panics: usize,
    panics: usize,
    oob_probes: usize,
    oob_by_panic: usize,
    runs_nontrivial: usize,
}
impl Stats {
    fn new() -> Stats {
        Stats { events: 0, builds: 0, build_refused: 0, build_panics: 0, panics: 0, oob_probes: 0, oob_by_panic: 0, runs_nontrivial: 0 }
    }
    fn json(&self) -> Value {
        json!({"events":self.events,"builds_ok":self.builds,"build_refused":self.build_refused,"build_panics":self.build_panics,
               "panics":self.panics,"oob_probes":self.oob_probes,"oob_refused_by_panic":self.oob_by_panic,"runs_nontrivial":self.runs_nontrivial})
    }
}

/// log e; returns true when it was a panic event (the run must stop)
fn put(tr: &mut Tracer, st: &mut Stats, e: Value) -> bool {
    let p = e["op"] == "panic";
    if p {
        st.panics += 1;
    }
    tr.ev(e);
    st.events += 1;
    p
}

/// all reads of a finished container: complete read-backs, then in-range and out-of-range probes.
/// `crashy`: include the index probes recorded as crashing (known findings) - false in the driver.
fn read_all(tr: &mut Tracer, st: &mut Stats, c: &dyn Cont, n_in: usize, r: &mut Rng, full2: bool) -> bool {
    let cap = n_in + 4;
    if put(tr, st, ev_readback(c, cap, "get")) {
        return false;
    }
    let n = match guard(|| c.len()) {
        Ok(n) => n.min(cap),
        Err(_) => return false,
    };
    if c.has_fast_get() && n > 0 && n <= 300 && guard(|| c.bits()).map_or(false, |b| b <= 58) {
        if put(tr, st, ev_readback(c, cap, "fast_get")) {
            return false;
        }
    }
    if full2 {
        if let Some(e) = ev_readback2(c, cap) {
            if put(tr, st, e) {
                return false;
            }
        }
    }
    if let Some(e) = ev_readblocks(c) {
        if put(tr, st, e) {
            return false;
        }
    }
    let mut le = json!({"op":"len","n":n});
    if let Ok(Some(b)) = guard(|| c.is_empty()) {
        le["empty"] = json!(b);
    }
    put(tr, st, le);
    let mut g: Vec<Value> = vec![];
    // a few single in-range reads
    if n > 0 {
        for i in [0, n - 1, r.below(n as u64) as usize] {
            g.push(ev_get(c, i, "get"));
            g.extend(ev_get2(c, i));
        }
        if n >= 2 {
            g.extend(ev_get2(c, n - 2));
        }
    }
    // out-of-range probes: every one must be refused.  (get2 at the two largest indices of the
    // UintVecMin0 family wraps idx+1 and crashes the process: executed by the witness mode instead.)
    let big: [usize; 6] = [1 << 20, 1 << 32, 1 << 58, usize::MAX / 2, usize::MAX - 1, usize::MAX];
    let mut probes: Vec<usize> = vec![n, n + 1, n + 2, n + 63, n + 64, n + 65, 2 * n + 1];
    probes.extend(big.iter().map(|&b| b.max(n + 7)));
    for &i in &probes {
        st.oob_probes += 1;
        g.push(ev_get(c, i, "get"));
        let wraps = i >= usize::MAX - 1 && c.has_fast_get();
        if !wraps {
            g.extend(ev_get2(c, i));
        }
    }
    if n > 0 && c.has_get2() {
        st.oob_probes += 1;
        g.extend(ev_get2(c, n - 1));
    }
    // fast_get knows only the (padded) byte buffer: judged inside the vector and far outside
    if c.has_fast_get() && guard(|| c.bits()).map_or(false, |b| b <= 58) {
        for &i in &[n, n + (1 << 20), 1usize << 40, 1 << 61, 1 << 62, 1 << 63, usize::MAX] {
            st.oob_probes += 1;
            g.push(ev_get(c, i, "fast_get"));
        }
    }
    if let Some((_, nb)) = c.blocks() {
        for b in [nb, nb + 1, 1 << 40, usize::MAX] {
            if let Some(e) = ev_get_block(c, b) {
                st.oob_probes += 1;
                g.push(e);
            }
        }
    }
    st.oob_by_panic += g.iter().filter(|p| p["how"] == "panic").count();
    put(tr, st, json!({"op":"probes","g":g}));
    true
}

fn bitlen(x: u128) -> u32 {
    128 - x.leading_zeros()
}
/// the 64-bit two's complement pattern of an input number (what `as u64` gives)
fn pat(x: i128) -> u64 {
    x as u64
}
/// descriptors of an input sequence (of the INPUT only; they name the input class in the reset
/// event so that known-finding triggers can be stated in TLA+): length, bit length of max-min,
/// of the 64-bit-pattern range, of the largest value; sign
fn describe(name: &str, xs: &[i128]) -> Value {
    let (mn, mx) = (xs.iter().min().copied().unwrap_or(0), xs.iter().max().copied().unwrap_or(0));
    let (umn, umx) = (xs.iter().map(|&x| pat(x)).min().unwrap_or(0), xs.iter().map(|&x| pat(x)).max().unwrap_or(0));
    let mut d = json!({"n": xs.len(), "bw": bitlen((mx - mn) as u128), "ubw": bitlen((umx - umn) as u128),
        "maxbits": bitlen(umx as u128), "neg": mn < 0});
    let p: Vec<&str> = name.split(':').collect();
    match p[0] {
        "intvec" => {
            let tb = match p[1] {
                "u8" | "i8" => 1,
                "u16" | "i16" => 2,
                "u32" | "i32" => 4,
                _ => 8,
            };
            d["tbytes"] = json!(tb);
            d["urk"] = json!(uranks(xs));
        }
        "sorted" => {
            let c = sorted_cfg(variant_of(name));
            d["sw"] = json!(c.sample_width);
            d["ow"] = json!(c.offset_width);
            d["bl"] = json!(c.log2_block_units);
        }
        _ => {}
    }
    d
}
/// dense ranks of the 64-bit patterns of the input (order-preserving coordinate compression)
fn uranks(xs: &[i128]) -> Vec<u32> {
    let mut sorted: Vec<u64> = xs.iter().map(|&x| pat(x)).collect();
    sorted.sort_unstable();
    sorted.dedup();
    xs.iter().map(|&x| sorted.binary_search(&pat(x)).unwrap_or(0) as u32).collect()
}

fn meta(name: &str, a: &Args, extra: Value) -> Value {
    let mut m = json!({"fam": fam_of(name), "variant": variant_of(name), "seed": a.seed});
    if let (Some(o), Some(x)) = (m.as_object_mut(), extra.as_object()) {
        for (k, v) in x {
            o.insert(k.clone(), v.clone());
        }
    }
    m
}

/// one bulk case: build from xs, read everything back
fn bulk_case(tr: &mut Tracer, st: &mut Stats, a: &Args, name: &str, dom: &str, profile: &str, xs: &[i128], r: &mut Rng, sets: bool) {
    let mut m = meta(name, a, json!({"dom":dom,"profile":profile,"mode":if sets {"bulk+set"} else {"bulk"}}));
    m["d"] = describe(name, xs);
    tr.reset("packedseq", name, m);
    let built = guard(|| build(name, xs));
    let mut c = match built {
        Err(m) => {
            st.build_panics += 1;
            put(tr, st, panic_ev("build", &m, json!({"n": xs.len()})));
            return;
        }
        Ok(Err(e)) => {
            st.build_refused += 1;
            put(tr, st, json!({"op":"build","xs":[],"ok":false,"err":e,"n":xs.len()}));
            return;
        }
        Ok(Ok(c)) => c,
    };
    st.builds += 1;
    let shown: Vec<String> = xs.iter().map(|&x| c.show(x)).collect();
    put(tr, st, json!({"op":"build","xs":shown,"ok":true}));
    for e in c.notes() {
        if e["op"] != "note" {
            put(tr, st, e);
        }
    }
    if !xs.is_empty() {
        st.runs_nontrivial += 1;
    }
    let mut dead = false;
    if sets && !xs.is_empty() {
        // set(i, x) with x drawn from the input (inside the range the container was sized for)
        for _ in 0..8 {
            let i = r.below(xs.len() as u64) as usize;
            let x = *r.pick(xs);
            let res = guard(|| c.set(i, x));
            match res {
                Ok(Some(())) => {
                    put(tr, st, json!({"op":"set","i":idx(i),"x":c.show(x),"ok":true}));
                }
                Ok(None) => break,
                Err(m) => {
                    put(tr, st, json!({"op":"set","i":idx(i),"x":c.show(x),"ok":false,"how":"panic","msgk":msgk(&m),"msg":m}));
                    dead = true;
                    break;
                }
            }
        }
    }
    if !dead {
        let full2 = xs.len() <= 300 || (dom == "sweep" && xs.len() <= 700) || (a.thorough() && xs.len() <= 1000);
        if !read_all(tr, st, c.as_ref(), xs.len(), r, full2) {
            dead = true;
        }
        // Clone::clone of every strategy's representation (IntVec: raw / min-max / delta / block-based with
        // its index): the copy must read back the same
        let n = xs.len();
        let edge_profile = profile.starts_with('r') && profile.ends_with(|c| c == 'z' || c == 'p');
        if !dead && !sets && !edge_profile && fam_of(name) == "intvec" && (n == 64 || n == 129 || (1000..=1200).contains(&n) || (a.thorough() && n <= 10100)) {
            match guard(|| c.dup()) {
                Ok(Some(d)) => match full_read(d.as_ref(), n + 4) {
                    Ok(out) => {
                        put(tr, st, json!({"op":"maintain","what":"clone","out":out}));
                    }
                    Err(e) => {
                        put(tr, st, e);
                        std::mem::forget(d);
                    }
                },
                Ok(None) => {}
                Err(m) => {
                    put(tr, st, panic_ev("clone", &m, json!({})));
                }
            }
        }
    }
    if !dead && sets {
        dead = !maintenance(tr, st, &mut c, xs, r);
    }
    if !dead && sets {
        // an out-of-range set must be refused (documented panic); ends the run
        let n = xs.len();
        let x = xs.first().copied().unwrap_or(0);
        let res = guard(|| c.set(n, x));
        match res {
            Ok(Some(())) => {
                put(tr, st, json!({"op":"set","i":idx(n),"x":c.show(x),"ok":true}));
                put(tr, st, ev_readback(c.as_ref(), n + 4, "get"));
            }
            Ok(None) => {}
            Err(m) => {
                put(tr, st, json!({"op":"set","i":idx(n),"x":c.show(x),"ok":false,"how":"panic","msgk":msgk(&m),"msg":m}));
                dead = true;
            }
        }
    }
    if dead {
        std::mem::forget(c);
    }
}

fn ev_back(c: &dyn Cont) -> Option<Value> {
    match guard(|| c.back()) {
        Ok(None) => None,
        Ok(Some(Rd::Val(v))) => Some(json!({"op":"back","r":[v],"how":"value"})),
        Ok(Some(_)) => Some(json!({"op":"back","r":[],"how":"err"})),
        Err(m) => Some(json!({"op":"back","r":[],"how":"panic","msgk":msgk(&m),"msg":m})),
    }
}
/// the complete read-back as a list of strings (None after a panic)
fn full_read(c: &dyn Cont, cap: usize) -> Result<Vec<Value>, Value> {
    let e = ev_readback(c, cap, "get");
    if e["op"] == "panic" {
        Err(e)
    } else {
        Ok(e["out"].as_array().cloned().unwrap_or_default())
    }
}

/// the other entry points of a built container, where offered: back, shrink_to_fit, clone, a second view,
/// resize (shrinking and growing), push after resize, swap, clear, refill.  Returns false when a panic
/// ended the run.
fn maintenance(tr: &mut Tracer, st: &mut Stats, c: &mut Box<dyn Cont>, xs: &[i128], r: &mut Rng) -> bool {
    let cap = xs.len() + 64;
    if let Some(e) = ev_back(c.as_ref()) {
        put(tr, st, e);
    }
    if let Ok(Some(())) = guard(|| c.shrink()) {
        match full_read(c.as_ref(), cap) {
            Ok(out) => put(tr, st, json!({"op":"maintain","what":"shrink_to_fit","out":out})),
            Err(e) => {
                put(tr, st, e);
                return false;
            }
        };
    }
    match guard(|| c.dup()) {
        Ok(Some(d)) => match full_read(d.as_ref(), cap) {
            Ok(out) => {
                put(tr, st, json!({"op":"maintain","what":"clone","out":out}));
            }
            Err(e) => {
                put(tr, st, e);
                std::mem::forget(d);
                return false;
            }
        },
        Ok(None) => {}
        Err(m) => {
            put(tr, st, panic_ev("clone", &m, json!({})));
            return false;
        }
    }
    match guard(|| c.other_view()) {
        Ok(Some(out)) => {
            put(tr, st, json!({"op":"maintain","what":"inner+min_val","out":out}));
        }
        Ok(None) => {}
        Err(m) => {
            put(tr, st, panic_ev("other_view", &m, json!({})));
            return false;
        }
    }
    // resize: shrink, then grow beyond the old length, then append
    let n = xs.len();
    for target in [n - n / 3, n + 5] {
        match guard(|| c.resize(target)) {
            Ok(Some(())) => match full_read(c.as_ref(), cap) {
                Ok(out) => {
                    put(tr, st, json!({"op":"resize","n":target,"out":out}));
                }
                Err(e) => {
                    put(tr, st, e);
                    return false;
                }
            },
            Ok(None) => break,
            Err(m) => {
                put(tr, st, panic_ev("resize", &m, json!({"n":target})));
                return false;
            }
        }
    }
    if !xs.is_empty() {
        let x = *r.pick(xs);
        match guard(|| c.push(x)) {
            Ok(Some(Ok(()))) => {
                put(tr, st, json!({"op":"push","x":c.show(x),"ok":true}));
            }
            Ok(Some(Err(e))) => {
                put(tr, st, json!({"op":"push","x":c.show(x),"ok":false,"err":e}));
            }
            Ok(None) => {}
            Err(m) => {
                put(tr, st, panic_ev("push", &m, json!({"x":c.show(x)})));
                return false;
            }
        }
        if let Some(e) = ev_back(c.as_ref()) {
            put(tr, st, e);
        }
        if put(tr, st, ev_readback(c.as_ref(), cap, "get")) {
            return false;
        }
    }
    // swap with a second container built from a permutation of a part of the input
    let mut ys: Vec<i128> = xs.iter().copied().rev().take(n / 2 + 1).collect();
    r.shuffle(&mut ys);
    match guard(|| c.swap_new(&ys)) {
        Ok(Some(())) => {
            let shown: Vec<String> = ys.iter().map(|&y| c.show(y)).collect();
            match full_read(c.as_ref(), cap) {
                Ok(out) => {
                    put(tr, st, json!({"op":"swap","xs":shown,"out":out}));
                }
                Err(e) => {
                    put(tr, st, e);
                    return false;
                }
            }
        }
        Ok(None) => {}
        Err(m) => {
            put(tr, st, panic_ev("swap", &m, json!({})));
            return false;
        }
    }
    // clear, the refusal of back() on an empty vector, refill
    match guard(|| c.clear()) {
        Ok(Some(())) => {
            let after = guard(|| c.len()).unwrap_or(usize::MAX);
            put(tr, st, json!({"op":"clear","n":after}));
            if let Some(e) = ev_back(c.as_ref()) {
                put(tr, st, e);
            }
            let mut le = json!({"op":"len","n":after});
            if let Ok(Some(b)) = guard(|| c.is_empty()) {
                le["empty"] = json!(b);
            }
            put(tr, st, le);
            for &x in xs.iter().take(9) {
                match guard(|| c.push(x)) {
                    Ok(Some(Ok(()))) => {
                        put(tr, st, json!({"op":"push","x":c.show(x),"ok":true}));
                    }
                    Ok(Some(Err(e))) => {
                        put(tr, st, json!({"op":"push","x":c.show(x),"ok":false,"err":e}));
                    }
                    Ok(None) => break,
                    Err(m) => {
                        put(tr, st, panic_ev("push", &m, json!({"x":c.show(x)})));
                        return false;
                    }
                }
            }
            if put(tr, st, ev_readback(c.as_ref(), cap, "get")) {
                return false;
            }
        }
        Ok(None) => {}
        Err(m) => {
            put(tr, st, panic_ev("clear", &m, json!({})));
            return false;
        }
    }
    true
}

/// incremental case: empty container, pushes in chunks, complete read-back at every checkpoint
fn inc_case(tr: &mut Tracer, st: &mut Stats, a: &Args, name: &str, dom: &str, profile: &str, xs: &[i128], checkpoints: &[usize], r: &mut Rng) {
    let mut m = meta(name, a, json!({"dom":dom,"profile":profile,"mode":"inc"}));
    m["d"] = describe(name, xs);
    tr.reset("packedseq", name, m);
    let mut c = match guard(|| empty(name)) {
        Ok(Some(c)) => c,
        _ => return,
    };
    put(tr, st, json!({"op":"build","xs":[],"ok":true}));
    st.builds += 1;
    let mut pending: Vec<String> = vec![];
    let mut dead = false;
    let mut pushed = 0usize;
    for (k, &x) in xs.iter().enumerate() {
        let res = guard(|| c.push(x));
        match res {
            Ok(Some(Ok(()))) => {
                pending.push(c.show(x));
                pushed += 1;
            }
            Ok(Some(Err(e))) => {
                if !pending.is_empty() {
                    put(tr, st, json!({"op":"extend","xs":std::mem::take(&mut pending)}));
                }
                put(tr, st, json!({"op":"push","x":c.show(x),"ok":false,"err":e}));
            }
            Ok(None) => return,
            Err(m) => {
                if !pending.is_empty() {
                    put(tr, st, json!({"op":"extend","xs":std::mem::take(&mut pending)}));
                }
                put(tr, st, panic_ev("push", &m, json!({"x":c.show(x)})));
                dead = true;
                break;
            }
        }
        if checkpoints.contains(&(k + 1)) || k + 1 == xs.len() {
            if !pending.is_empty() {
                put(tr, st, json!({"op":"extend","xs":std::mem::take(&mut pending)}));
            }
            if c.finish().is_none() {
                // readable while growing
                let last = k + 1 == xs.len();
                if last {
                    if !read_all(tr, st, c.as_ref(), pushed, r, pushed <= 300) {
                        dead = true;
                        break;
                    }
                } else {
                    if put(tr, st, ev_readback(c.as_ref(), pushed + 4, "get")) {
                        dead = true;
                        break;
                    }
                    st.oob_probes += 1;
                    put(tr, st, json!({"op":"probes","g":[ev_get(c.as_ref(), pushed, "get")]}));
                }
            }
        }
    }
    if pushed > 0 {
        st.runs_nontrivial += 1;
    }
    if dead {
        std::mem::forget(c);
    }
}

// ---------------------------------------------------------------- drive

const LENS_ALL: &[usize] = &[0, 1, 2, 63, 64, 65, 127, 128, 129, 255, 256, 257, 1000];
const LENS_BIG: &[usize] = &[10000, 10001];

/// the cases of one subject: (dom, lo, hi, profile, n)
/// bit widths a subject can be made to choose (for the width sweeps), per value domain
fn type_bits(name: &str) -> u32 {
    let p: Vec<&str> = name.split(':').collect();
    match (p[0], p[1]) {
        ("intvec", "u8") | ("intvec", "i8") => 8,
        ("intvec", "u16") | ("intvec", "i16") => 16,
        ("intvec", "u32") | ("intvec", "i32") | ("uintvec", _) | (_, "u32") | (_, "i32") => 32,
        (_, "risk") => 58,
        _ => 64,
    }
}

fn cases(a: &Args, name: &str) -> Vec<(&'static str, i128, i128, String, usize)> {
    let mut v: Vec<(&'static str, i128, i128, String, usize)> = vec![];
    let fam = fam_of(name);
    let doms = domains(name);
    let quick = !a.thorough();
    // the delegating IntVec constructors take every second (profile, length) pair in the quick tier
    // (from_slice_bulk only: from_slice_bulk_simd has its own strategy analysis for 65..=2048 elements and gets
    // every profile at every length)
    let half = quick && fam == "intvec" && name.ends_with(":from_slice_bulk");
    // construction-route twins and flipped-flag twins: their own value is the route / the flag; the quick tier
    // gives them the boundary lengths only
    let twin = matches!(variant_of(name), "new_set" | "resize_set" | "risk")
        || (fam == "sorted" && SORTED_TWINS.contains(&variant_of(name).split(':').next().unwrap_or("")));
    for (di, &(dom, lo, hi)) in doms.iter().enumerate() {
        let secondary = di > 0;
        for (pi, &p) in PROFILES.iter().enumerate() {
            // sorted input makes several profiles alike: the quick tier keeps the distinct ones
            if quick && fam == "sorted" && matches!(p, "alt" | "allbits" | "lo_small" | "desc") {
                continue;
            }
            // SortedUintVec: the lengths around the boundaries of ITS block size (quick: only those)
            let mut lens: Vec<usize> = LENS_ALL.to_vec();
            if fam == "sorted" {
                let bs = sorted_cfg(variant_of(name)).block_size();
                let around = [0, 1, 2, bs - 1, bs, bs + 1, 2 * bs - 1, 2 * bs, 2 * bs + 1, 1000];
                if quick {
                    lens = around.to_vec();
                } else {
                    lens.extend(around.iter().filter(|n| !LENS_ALL.contains(n)));
                }
                if quick && secondary {
                    lens = vec![2, bs + 1];
                }
            }
            if quick && twin {
                if fam == "sorted" {
                    let bs = sorted_cfg(variant_of(name)).block_size();
                    lens = if secondary { vec![bs + 1] } else { vec![0, 1, bs - 1, bs, 2 * bs + 1] };
                } else {
                    lens = if secondary { vec![65] } else { vec![0, 1, 2, 65, 257] };
                }
                if pi % 2 == 1 && !secondary {
                    lens.retain(|&n| n <= 2);
                }
            }
            for (li, &n) in lens.iter().enumerate() {
                if quick && secondary && fam != "sorted" && !(n == 0 || n == 2 || n == 65 || n == 257) {
                    continue;
                }
                if quick && fam == "sorted" && n == 1000 && (pi + sorted_cfg(variant_of(name)).log2_block_units as usize) % 2 == 1 {
                    continue;
                }
                if half && n > 2 && (pi + li) % 2 == 1 {
                    continue;
                }
                v.push((dom, lo, hi, p.to_string(), n));
            }
            // outliers confined to the trailing partial block: lengths just past a block multiple, above the
            // 1000-element threshold of the block-based strategy (every constructor, both tiers)
            if p == "tail_outlier" && fam != "sorted" && !secondary {
                for &n in &[1029usize, 1100, 2051, 4099] {
                    v.push((dom, lo, hi, p.to_string(), n));
                }
                if a.thorough() {
                    v.push((dom, lo, hi, p.to_string(), 12803));
                }
            }
            // long inputs (the IntVec strategy switch sits at 10 000 elements / 16 KiB)
            let mut rot = Rng::new(a.seed).derive(&group_of(name)).derive(p).derive(dom);
            let k0 = rot.next();
            for &n in LENS_BIG {
                let take = if a.thorough() {
                    true
                } else {
                    match fam {
                        // quick: every second (type, profile) pair gets one long input: one constructor and
                        // one of the two long lengths, rotating with the seed
                        "intvec" => {
                            (pi + (k0 >> 20) as usize) % 2 == 0
                                && CTORS[((k0 % 3) as usize + pi) % 3] == name.rsplit(':').next().unwrap_or("")
                                && ((k0 >> 8) as usize + pi / 2 + n) % 2 == 0
                        }
                        "sorted" => !twin && !secondary && name.ends_with("b6") && pi % 4 == (n % 4),
                        // UintVector::build_from: three strategies, cheap: every profile at both long lengths
                        "uintvec" => !secondary && (name.ends_with("build_from") || pi % 4 == n % 4),
                        _ => !twin && !secondary && pi % 4 == n % 4,
                    }
                };
                if take {
                    v.push((dom, lo, hi, p.to_string(), n));
                }
            }
            // thorough: 70 000 elements (well beyond the strategy switch) for a rotating quarter of the profiles
            let rot4 = pi % 4 == (k0 >> 12) as usize % 4;
            let big70 = match fam {
                "intvec" => name.ends_with(":from_slice") && rot4,
                "sorted" => name.ends_with("default:b7") && rot4,
                "uintvec" => true,
                _ => rot4,
            };
            if a.thorough() && !secondary && big70 {
                v.push((dom, lo, hi, p.to_string(), 70000));
            }
        }
    }
    // ---- lengths on both sides of the thresholds in the code: 4 and 8 elements (raw storage below), 1000/1001
    // (block-based strategy), from_slice_bulk_simd: 64/65 and 2048/2049 (path switch), 1024/1025 (uniform-delta
    // check), one-byte elements: 17407/17408 (16 KiB: small / large dataset analysis)
    if fam == "intvec" || fam == "uintvec" || fam == "uvm0" || fam == "zipint" {
        let (dom, lo, hi) = doms[0];
        for p in ["full", "sorted", "arith", "outliers", "const_rand"] {
            for n in [3usize, 4, 5, 7, 8, 9] {
                v.push((dom, lo, hi, p.to_string(), n));
            }
            if fam == "intvec" && (!quick || p != "const_rand") {
                v.push((dom, lo, hi, p.to_string(), 1001));
                if name.ends_with("bulk_simd") {
                    for n in [1024usize, 1025, 2048, 2049] {
                        v.push((dom, lo, hi, p.to_string(), n));
                    }
                }
                if type_bits(name) == 8 && name.ends_with(":from_slice") && (p == "full" || p == "outliers" || !quick) {
                    v.push((dom, lo, hi, p.to_string(), 17407));
                    v.push((dom, lo, hi, p.to_string(), 17408));
                }
            }
        }
    }
    // ---- deceptive samples on both sides of every routing threshold (64/65, 128/129, 1000/1001, 1024/1025,
    // 2048/2049, 10000/10001), for every constructor that analyses its input
    let analyses = match fam {
        "intvec" => true,
        "uintvec" => variant_of(name) == "build_from",
        "uvm0" | "zipint" => matches!(variant_of(name), "usize" | "u32" | "i32"),
        _ => false,
    };
    if analyses {
        const DEC: &[&str] = &[
            "dec_sorted_hi", "dec_sorted_lo", "dec_sorted_both", "dec_const_hi", "dec_const_both", "dec_small_both", "dec_arith_hi",
            "dec_arith_lo",
        ];
        let (dom, lo, hi) = doms[0];
        let bulk_twin = name.ends_with(":from_slice_bulk");
        for (pi, p) in DEC.iter().enumerate() {
            for &n in &[64usize, 65, 128, 129] {
                if !(quick && bulk_twin && (pi + n) % 2 == 1) {
                    v.push((dom, lo, hi, p.to_string(), n));
                }
            }
            // long inputs: both sides of a threshold get the same profiles; the quick tier rotates three of the
            // eight profiles over the pairs (all of them for the SIMD constructor's own range up to 2049)
            for (ti, pair) in [[1000usize, 1001], [1024, 1025], [2048, 2049], [10000, 10001]].iter().enumerate() {
                let simd = name.ends_with("bulk_simd") && ti < 3;
                let other = !bulk_twin && !name.ends_with("bulk_simd") && match ti {
                    0 | 1 => (pi + ti) % 3 == 0,
                    3 => pi % 4 == 0 && (name.ends_with(":from_slice") || fam == "uintvec"),
                    _ => false,
                };
                let take = !quick || (simd && pi % 2 == ti % 2) || other;
                if take {
                    v.push((dom, lo, hi, p.to_string(), pair[0]));
                    v.push((dom, lo, hi, p.to_string(), pair[1]));
                }
            }
        }
    }
    // ---- width sweeps on the full domain of the subject: every bit width the container can choose, with
    // the top bit of that width set, lengths 67 / 99 / 131 (all index residues modulo 8, one SIMD chunk of 64
    // plus a partial one)
    if fam != "sorted" {
        let (dom, lo, hi0) = *doms.iter().find(|d| d.0 == "u64").unwrap_or(&doms[0]);
        // containers that store raw values (no minimum subtracted) choose the width of the largest value
        let raw = matches!(variant_of(name), "push" | "new_set" | "resize_set") && fam != "uintvec";
        let bits = type_bits(name);
        let ci = CTORS.iter().position(|c| name.ends_with(&format!(":{c}"))).unwrap_or(0);
        for k in 1..=bits {
            let n = [67usize, 99, 131][(k % 3) as usize];
            // exactly 2^k and 2^k + 1: one past the k-bit field (the container must choose k + 1 bits)
            if k < bits {
                for (d, sfx) in [(0i128, "z"), (1, "p")] {
                    // quick: 2^k for every width, 2^k + 1 for every second one; the delegating IntVec
                    // constructors take every second width
                    let ci0 = CTORS.iter().position(|c| name.ends_with(&format!(":{c}"))).unwrap_or(0);
                    if quick && ((d == 1 && k % 2 == 0) || (fam == "intvec" && ci0 > 0 && (k as usize + ci0) % 2 == 0)) {
                        continue;
                    }
                    let (edom, ehi) = if raw { ("wk", ((1i128 << k) + d).min(hi0)) } else { (dom, hi0) };
                    v.push((edom, lo, ehi, format!("r{k}{sfx}"), n));
                    if (fam == "intvec" || fam == "uintvec") && k <= 33 && k + 7 <= bits + 1 {
                        v.push((edom, lo, ehi, format!("dr{k}{sfx}"), n));
                    }
                    // the same above 1000 elements (block-based offsets / long UintVector inputs)
                    let ci = CTORS.iter().position(|c| name.ends_with(&format!(":{c}"))).unwrap_or(0);
                    let pick = !quick || (k as i128 + d) % 2 == 0;
                    if (fam == "intvec" && k >= 16 && pick && (!quick || (k as usize + ci) % 3 == 0)) || (fam == "uintvec" && k >= 8 && variant_of(name) == "build_from") {
                        v.push((edom, lo, ehi, format!("r{k}{sfx}"), if (k as i128 + d) % 2 == 0 { 1013 } else { 1100 }));
                    }
                }
            }
            let (dom, hi) = if raw { ("wk", ((1i128 << k) - 1).min(hi0)) } else { (dom, hi0) };
            v.push((dom, lo, hi, format!("w{k}"), n));
            if fam == "intvec" || fam == "uintvec" {
                // sorted inputs: the delta strategy (deltas up to 2^32), while the sum of the steps fits the type
                if k <= 34 && k + 7 <= bits + 1 {
                    v.push((dom, lo, hi, format!("dw{k}"), n));
                }
                // above 1000 elements and 16 bits: the block-based strategy (offset width = k; base width = k)
                let mine = !quick || (k as usize + ci) % 3 == 0;
                if k > 16 && mine && fam == "intvec" {
                    // 1001..1023 elements: blocks of 64; from 1024: blocks of 128
                    if !quick || k % 2 == 0 || k > bits - 2 {
                        v.push((dom, lo, hi, format!("w{k}"), if k % 4 < 2 { 1013 } else { 1100 }));
                    }
                    if !quick || k % 2 == 1 || k > bits - 2 {
                        v.push((dom, lo, hi, format!("bs{k}"), if k % 4 < 2 { 1137 } else { 1021 }));
                    }
                }
                if !quick && fam == "intvec" && ci == 0 && k % 4 == 0 {
                    v.push((dom, lo, hi, format!("w{k}"), 10003 + k as usize));
                    v.push((dom, lo, hi, format!("bs{k}"), 10067 + k as usize));
                }
                // UintVector packs only when that saves 20 %: the wide widths (up to 25) need long inputs
                if fam == "uintvec" && (k >= 16 || k % 4 == 0 || !quick) {
                    v.push((dom, lo, hi, format!("w{k}"), 1029));
                }
                // exactly 16 bits above 1000 elements stays min-max; 17 bits switches to block-based
                if fam == "intvec" && k == 16 && ci == 0 {
                    v.push((dom, lo, hi, format!("w{k}"), 1013));
                }
            }
        }
    }
    v
}

/// SortedUintVec, configured field widths: an in-block delta of exactly 2^offset_width - 1, 2^offset_width and
/// 2^offset_width + 1 at the second, a middle and the last element of a full block and of the trailing partial
/// block; a block base of 2^sample_width - 1, 2^sample_width, 2^sample_width + 1; and the three-element inputs.
/// The builder must refuse (finish() -> Err) or the vector must read back exactly.
fn sorted_edges(tr: &mut Tracer, st: &mut Stats, a: &Args, name: &str, r0: &Rng, few: bool) -> usize {
    let cfg = sorted_cfg(variant_of(name));
    let bs = cfg.block_size();
    let (ow, sw) = (cfg.offset_width as u32, cfg.sample_width as u32);
    let sizes = [bs, bs / 2 + 1];
    let mut ncases = 0;
    let mut run = |tr: &mut Tracer, st: &mut Stats, tag: String, xs: Vec<i128>| {
        if xs.iter().all(|&x| x <= u64::MAX as i128) && xs.windows(2).all(|w| w[0] <= w[1]) {
            let mut r = r0.derive(&tag);
            bulk_case(tr, st, a, name, "edge", &tag, &xs, &mut r, false);
            ncases += 1;
        }
    };
    for d in [-1i128, 0, 1] {
        let lim = (1i128 << ow) + d;
        for t in 0..2usize {
            for (pi, pos) in [1usize, sizes[t] / 2, sizes[t] - 1].iter().enumerate() {
                if few && !(d == 0 || (d == -1 && t == 1 && pi == 2)) {
                    continue;
                }
                // two blocks (one full, one partial) of slowly rising values; from `pos` on, the elements of block t
                // sit `lim` above the first value of their block
                let mut xs: Vec<i128> = vec![];
                let mut base = 1000i128;
                for b in 0..2usize {
                    for i in 0..sizes[b] {
                        xs.push(if b == t && i >= *pos { base + lim } else { base + (i as i128).min(lim.max(1) - 1).min(200) });
                    }
                    base = xs[xs.len() - 1] + 3;
                }
                run(tr, st, format!("eo{}t{t}p{pi}", ["m", "z", "p"][(d + 1) as usize]), xs);
            }
        }
        // the inputs of three elements
        run(tr, st, format!("eo{}tiny", ["m", "z", "p"][(d + 1) as usize]), vec![7, 8, 7 + lim]);
        // the base value of the second block at the limit of the sample field
        if sw < 64 && !(few && d != 0) {
            let b1 = (1i128 << sw) + d;
            let mut xs: Vec<i128> = (0..bs as i128).map(|i| i.min((1i128 << ow) - 1)).collect();
            xs.extend((0..(bs / 2 + 1) as i128).map(|i| b1 + i.min((1i128 << ow) - 1)));
            run(tr, st, format!("es{}", ["m", "z", "p"][(d + 1) as usize]), xs);
        }
    }
    ncases
}

/// UintVecMin0 / ZipIntVec sized by hand (new / resize_with_uintbits / resize_with_wire_max_val /
/// resize_with_range) for values of at most k bits: every element set to a k-bit value (the all-ones one
/// first, in the middle or last), then set(pos, max + 1) or set(pos, max + 2): refused, or stored exactly
fn limit_cases(tr: &mut Tracer, st: &mut Stats, a: &Args, name: &str, r0: &Rng) -> usize {
    let mut ncases = 0;
    let zip = fam_of(name) == "zipint";
    for k in 1u32..=63 {
        if !a.thorough() && k > 34 && k % 4 != 2 && k < 57 {
            continue;
        }
        for d in [1i128, 2] {
            let n = [67usize, 99, 131][(k % 3) as usize];
            let mut r = r0.derive(&format!("lim{k}/{d}"));
            let top = (1i128 << k) - 1;
            let base: i128 = if zip { rand_in(&mut r, 0, (u64::MAX as i128) - top - 2) } else { 0 };
            let mut xs: Vec<i128> = (0..n).map(|_| base + rand_in(&mut r, 0, top)).collect();
            let pos = [0usize, n / 2, n - 1][((k as i128 + d) % 3) as usize];
            xs[pos] = base + top;
            xs[if pos + 1 < n { pos + 1 } else { pos - 1 }] = base;
            let tag = format!("lim{k}+{d}");
            let mut m = meta(name, a, json!({"dom":"limit","profile":tag,"mode":"limit"}));
            m["d"] = describe(name, &xs);
            tr.reset("packedseq", name, m);
            ncases += 1;
            let mut c = match guard(|| build(name, &xs)) {
                Ok(Ok(c)) => c,
                Ok(Err(e)) => {
                    st.build_refused += 1;
                    put(tr, st, json!({"op":"build","xs":[],"ok":false,"err":e}));
                    continue;
                }
                Err(msg) => {
                    st.build_panics += 1;
                    put(tr, st, panic_ev("build", &msg, json!({})));
                    continue;
                }
            };
            st.builds += 1;
            st.runs_nontrivial += 1;
            put(tr, st, json!({"op":"build","xs":xs.iter().map(|&x| c.show(x)).collect::<Vec<_>>(),"ok":true}));
            if put(tr, st, ev_readback(c.as_ref(), n + 4, "get")) {
                std::mem::forget(c);
                continue;
            }
            // one past (two past) the largest value the configured width holds; for ZipIntVec also one below the minimum
            let mut tries = vec![(pos, base + top + d)];
            if zip && base > 0 && d == 1 {
                tries.insert(0, (n - 1 - pos, base - 1));
            }
            let mut dead = false;
            for (i, x) in tries {
                match guard(|| c.set(i, x)) {
                    Ok(Some(())) => {
                        put(tr, st, json!({"op":"set","i":idx(i),"x":c.show(x),"ok":true}));
                    }
                    Ok(None) => {}
                    Err(msg) => {
                        put(tr, st, json!({"op":"set","i":idx(i),"x":c.show(x),"ok":false,"how":"panic","msgk":msgk(&msg),"msg":msg}));
                        dead = true;
                        break;
                    }
                }
            }
            // (a refusing panic is raised by the argument checks before anything is written: the content is read once more)
            if put(tr, st, ev_readback(c.as_ref(), n + 4, "get")) || dead {
                std::mem::forget(c);
            }
        }
    }
    ncases
}

/// the width sweep of SortedUintVec: every sample_width 16..64 with offset widths 8..32, both use_simd
/// settings, all block sizes; values reach the top bit of the sample field and of the offset field, the
/// last (partial) block included
fn sorted_sweep(tr: &mut Tracer, st: &mut Stats, a: &Args, r0: &Rng) -> usize {
    let mut ncases = 0;
    for sw in 16u32..=64 {
        for rep in 0..2u32 {
            let ow = if rep == 0 { 8 + (sw - 16) / 2 } else { 32 - (sw - 16) / 2 };
            let simd = (sw + rep) % 2 == 0;
            let log2 = 4 + (sw + 2 * rep) % 5;
            if !a.thorough() && rep == 1 && sw % 2 == 0 {
                continue;
            }
            let bs = 1usize << log2;
            let n = 2 * bs + bs / 2 + 1;
            let cfgname = format!("sorted:sw{sw}o{ow}{}:b{log2}", if simd { "_s" } else { "_ns" });
            let mut r = r0.derive(&cfgname);
            let smax: u128 = if sw == 64 { u64::MAX as u128 } else { (1u128 << sw) - 1 };
            let omax: u128 = (1u128 << ow) - 1;
            let nb = (n + bs - 1) / bs;
            let mut xs: Vec<i128> = Vec::with_capacity(n);
            for b in 0..nb {
                // block bases: 0, ..., and the last block as high as the sample field allows
                let base: u128 = if b == 0 {
                    0
                } else if b + 1 == nb {
                    smax - omax.min(smax)
                } else {
                    (smax >> 1) + 1 + (b as u128) * (omax + 1).min(smax >> 3)
                };
                let in_blk = bs.min(n - b * bs);
                // offsets ascend to the all-ones offset at the last element of the block
                let mut offs: Vec<u128> = (0..in_blk).map(|_| rand_in(&mut r, 0, omax as i128) as u128).collect();
                offs.sort_unstable();
                offs[0] = 0;
                if in_blk > 1 {
                    offs[in_blk - 1] = omax;
                }
                for o in offs {
                    xs.push((base + o).min(u64::MAX as u128) as i128);
                }
            }
            xs.sort_unstable();
            bulk_case(tr, st, a, &cfgname, "sweep", &format!("sw{sw}o{ow}"), &xs, &mut r, false);
            ncases += sorted_edges(tr, st, a, &cfgname, r0, !a.thorough());
            ncases += 1;
        }
    }
    // configurations outside the documented limits: with_config / finish must refuse them (an accepted
    // one is judged like any other)
    for (k, (log2, ow, sw)) in [(3u8, 16u8, 32u8), (9, 16, 32), (6, 7, 32), (6, 33, 40), (6, 16, 15), (6, 16, 65), (6, 0, 0)].iter().enumerate() {
        let cfg = SortedUintVecConfig { log2_block_units: *log2, offset_width: *ow, sample_width: *sw, use_simd: k % 2 == 0 };
        let xs: Vec<i128> = (0..150).map(|i| i * 3).collect();
        let name = format!("sorted:invalid{k}:b{log2}");
        let mut m = meta(&name, a, json!({"mode":"invalid-config","cfg":[log2, ow, sw]}));
        m["d"] = describe("sorted:default:b6", &xs);
        tr.reset("packedseq", &name, m);
        let res = guard(|| -> Result<Box<dyn Cont>, String> {
            let mut b = SortedUintVecBuilder::with_config(cfg);
            b.extend(xs.iter().map(|&x| x as u64)).map_err(|e| e.to_string())?;
            let v = b.finish().map_err(|e| e.to_string())?;
            Ok(Box::new(SV { b: None, v: Some(v), notes: vec![] }))
        });
        match res {
            Err(msg) => {
                put(tr, st, panic_ev("build", &msg, json!({})));
            }
            Ok(Err(e)) => {
                st.build_refused += 1;
                put(tr, st, json!({"op":"build","xs":[],"ok":false,"err":e}));
            }
            Ok(Ok(c)) => {
                st.builds += 1;
                put(tr, st, json!({"op":"build","xs":xs.iter().map(|x| x.to_string()).collect::<Vec<_>>(),"ok":true}));
                let mut r = r0.derive(&name);
                read_all(tr, st, c.as_ref(), xs.len(), &mut r, true);
            }
        }
        ncases += 1;
    }
    ncases
}

/// every way to obtain an empty container of a family
fn empties(fam: &str) -> Vec<(&'static str, Box<dyn Cont>)> {
    let mut v: Vec<(&'static str, Box<dyn Cont>)> = vec![];
    match fam {
        "intvec" => {
            v.push(("IntVec::<u32>::new", Box::new(IV(IntVec::<u32>::new()))));
            v.push(("IntVec::<i64>::default", Box::new(IV(IntVec::<i64>::default()))));
            v.push(("IntVec::<u8>::new", Box::new(IV(IntVec::<u8>::new()))));
        }
        "uintvec" => {
            v.push(("UintVector::new", Box::new(UV(UintVector::new()))));
            v.push(("UintVector::default", Box::new(UV(UintVector::default()))));
            v.push(("UintVector::with_capacity", Box::new(UV(UintVector::with_capacity(64)))));
        }
        "uvm0" => {
            v.push(("UintVecMin0::new_empty", Box::new(M0 { v: UintVecMin0::new_empty(), min: Min::Usize(0) })));
            v.push(("UintVecMin0::default", Box::new(M0 { v: UintVecMin0::default(), min: Min::Usize(0) })));
            v.push(("UintVecMin0::new(0, 255)", Box::new(M0 { v: UintVecMin0::new(0, 255), min: Min::Usize(0) })));
        }
        "zipint" => {
            v.push(("ZipIntVec::new_empty", Box::new(ZI { v: ZipIntVec::new_empty(), u32_: false })));
            v.push(("ZipIntVec::default", Box::new(ZI { v: ZipIntVec::default(), u32_: false })));
            v.push(("ZipIntVec::new(0, 5, 9)", Box::new(ZI { v: ZipIntVec::new(0, 5, 9), u32_: false })));
        }
        "sorted" => {
            if let Ok(x) = SortedUintVec::new() {
                v.push(("SortedUintVec::new", Box::new(SV { b: None, v: Some(x), notes: vec![] })));
            }
            v.push(("SortedUintVec::default", Box::new(SV { b: None, v: Some(SortedUintVec::default()), notes: vec![] })));
            for c in ["perf:b7", "mem:b4", "wide:b8"] {
                if let Ok(x) = SortedUintVec::with_config(sorted_cfg(c)) {
                    v.push(("SortedUintVec::with_config", Box::new(SV { b: None, v: Some(x), notes: vec![] })));
                }
            }
        }
        _ => {}
    }
    v
}

fn run_subject(tr: &mut Tracer, a: &Args, name: &str) -> Value {
    let mut st = Stats::new();
    let rng0 = Rng::new(a.seed).derive(name);
    if variant_of(name) == "empty" {
        let mut r = rng0.clone();
        let mut n = 0;
        for (ctor, mut c) in guard(|| empties(fam_of(name))).unwrap_or_default() {
            let mut m = meta(name, a, json!({"mode":"empty","ctor":ctor}));
            m["d"] = describe(name, &[]);
            tr.reset("packedseq", name, m);
            put(tr, &mut st, json!({"op":"build","xs":[],"ok":true}));
            st.builds += 1;
            if read_all(tr, &mut st, c.as_ref(), 0, &mut r, true) {
                if let Some(e) = ev_back(c.as_ref()) {
                    put(tr, &mut st, e);
                }
                // an empty container can be filled where it offers push
                let mut pushed = vec![];
                for x in [3i128, 1, 200, 7] {
                    if let Ok(Some(Ok(()))) = guard(|| c.push(x)) {
                        pushed.push(c.show(x));
                    }
                }
                if !pushed.is_empty() {
                    put(tr, &mut st, json!({"op":"extend","xs":pushed}));
                    put(tr, &mut st, ev_readback(c.as_ref(), 16, "get"));
                }
            }
            n += 1;
        }
        let mut j = st.json();
        j["cases"] = json!(n);
        return j;
    }
    let mut ncases = 0usize;
    if name == "sorted:sweep" {
        let n = sorted_sweep(tr, &mut st, a, &rng0);
        let mut j = st.json();
        j["cases"] = json!(n);
        return j;
    }
    for (dom, lo, hi, profile, n) in cases(a, name) {
        let profile = profile.as_str();
        let sweep = ["w", "dw", "bs", "r", "dr"].iter().any(|p| {
            profile.strip_prefix(p).map_or(false, |rest| rest.chars().next().map_or(false, |c| c.is_ascii_digit()))
        });
        let mut r = rng0.derive(&format!("{dom}/{profile}/{n}"));
        let mut xs = gen(profile, n, lo, hi, &mut r);
        ncases += 1;
        if incremental(name) {
            if n == 0 || (n > 1000 && !a.thorough() && profile != "small" && profile != "outliers" && profile != "runs") {
                continue;
            }
            // only the largest length class of a (dom, profile): the checkpoints cover the shorter ones
            if n != 1000 && n != 10001 && n != 70000 && !sweep {
                continue;
            }
            let mut cps: Vec<usize> = LENS_ALL.iter().copied().filter(|&c| c > 0).collect();
            cps.extend_from_slice(&[1001, 1002, 1063, 1064, 1065, 2000, 5000]);
            inc_case(tr, &mut st, a, name, dom, profile, &xs, &cps, &mut r);
            continue;
        }
        if fam_of(name) == "sorted" {
            // the builder needs sorted input; one profile keeps its order to exercise the refusal of push
            if !(profile == "minmax" && n == 65) {
                xs.sort_unstable();
            }
        }
        bulk_case(tr, &mut st, a, name, dom, profile, &xs, &mut r, false);
        // set() where offered: a second run on the same input
        // set() and the other entry points (back, resize, clone, swap, clear ...) where offered: a second run
        let offers_set = matches!(fam_of(name), "uvm0" | "zipint" | "intvec");
        let quick_pick = a.thorough() || sweep || ncases % 3 == 0;
        let edge_profile = (profile.starts_with('r') || profile.starts_with("dr")) && sweep;
        if offers_set && quick_pick && !edge_profile && (n == 2 || n == 65 || (sweep && n == 99) || (a.thorough() && (n == 257 || n == 1000))) {
            bulk_case(tr, &mut st, a, name, dom, profile, &xs, &mut r, true);
        }
    }
    if fam_of(name) == "sorted" {
        ncases += sorted_edges(tr, &mut st, a, name, &rng0, false);
    }
    if matches!(name, "uvm0:new_set" | "uvm0:resize_set" | "zipint:new_set" | "zipint:resize_set") {
        ncases += limit_cases(tr, &mut st, a, name, &rng0);
    }
    let mut j = st.json();
    j["cases"] = json!(ncases);
    j
}

/// subject filter; the runs of the width sweep carry their configuration as subject name
fn wanted(a: &Args, s: &str) -> bool {
    a.wants(s) || (s == "sorted:sweep" && a.subject.as_deref().map_or(false, |f| f.split(',').any(|p| p.starts_with("sorted:sw") || p.starts_with("sorted:invalid"))))
}

fn group(a: &Args) {
    let g = a.get("group").unwrap_or("").to_string();
    let mut tr = Tracer::new(&a.out, &format!("ps-{}", g.replace(':', "_")));
    // files rotate at run boundaries; a few thousand events (5-10 MB) per file keep the JVM count low and the
    // largest file small
    tr.max_events = a.get_u64("file_events", 4000) as usize;
    let mut per_subject = serde_json::Map::new();
    for name in subjects().iter().filter(|s| group_of(s) == g && wanted(a, s)) {
        per_subject.insert(name.clone(), run_subject(&mut tr, a, name));
        tr.flush();
    }
    tr.close();
    std::fs::write(
        a.out.join(format!("group-{}.json", g.replace(':', "_"))),
        serde_json::to_vec(&json!({"events":tr.total_events,"runs":tr.runs,"subjects":per_subject,
            "files":tr.files.iter().map(|p|p.display().to_string()).collect::<Vec<_>>()}))
        .unwrap(),
    )
    .expect("write group summary");
}

/// recorded crashing calls (known findings whose effect cannot be modelled): (id, subject, description)
const WITNESSES: &[(&str, &str)] = &[("get2_wrap_uvm0", "uvm0:usize"), ("get2_wrap_zipint", "zipint:usize")];

fn witness_child(a: &Args) {
    // executed in a child: the call may kill the process
    let which = a.get("which").unwrap_or("");
    let xs: Vec<i128> = (0..100).map(|x| x * 3).collect();
    let name = WITNESSES.iter().find(|w| w.0 == which).map(|w| w.1).unwrap_or("");
    let c = build(name, &xs).expect("build");
    let r = guard(|| c.get2(usize::MAX));
    let code = match r {
        Err(_) => 10,                      // refused by panic
        Ok(Some(Rd2::Err)) | Ok(None) => 11, // refused
        Ok(Some(Rd2::Val(..))) => 12,      // a value for an out-of-range index
    };
    std::process::exit(code);
}

fn run_witnesses(a: &Args, tr: &mut Tracer) -> usize {
    let mut n = 0;
    let exe_args = |which: &str| -> Vec<String> {
        vec!["--mode".into(), "witness".into(), "--which".into(), which.into(), "--seed".into(), a.seed.to_string(), "--tier".into(), a.tier.clone()]
    };
    for (which, name) in WITNESSES {
        if !a.wants(name) {
            continue;
        }
        let xs: Vec<i128> = (0..100).map(|x| x * 3).collect();
        let out = run_child(&exe_args(which), 60, 0, true);
        let mut m = meta(name, a, json!({"mode":"witness","which":which}));
        m["d"] = describe(name, &xs);
        tr.reset("packedseq", name, m);
        tr.ev(json!({"op":"build","xs":xs.iter().map(|x| x.to_string()).collect::<Vec<_>>(),"ok":true}));
        let i = idx(usize::MAX);
        let e = match out {
            ChildOutcome::Exit(10) => json!({"op":"get2","i":i,"r":[],"how":"panic","msg":"(child)"}),
            ChildOutcome::Exit(11) => json!({"op":"get2","i":i,"r":[],"how":"err"}),
            ChildOutcome::Exit(12) => json!({"op":"get2","i":i,"r":[["?","?"]],"how":"value"}),
            ChildOutcome::Signal(sig) => json!({"op":"get2","i":i,"r":[],"how":"crash","signal":sig}),
            ChildOutcome::Timeout => json!({"op":"get2","i":i,"r":[],"how":"timeout"}),
            ChildOutcome::Exit(c) => json!({"op":"get2","i":i,"r":[],"how":"exit","code":c}),
        };
        tr.ev(e);
        n += 2;
    }
    n
}

fn drive(a: &Args) {
    let mut groups: Vec<String> = vec![];
    for s in subjects().iter().filter(|s| wanted(a, s)) {
        let g = group_of(s);
        if !groups.contains(&g) {
            groups.push(g);
        }
    }
    let results = std::sync::Mutex::new(Vec::<(String, ChildOutcome)>::new());
    let next = std::sync::atomic::AtomicUsize::new(0);
    let nthreads = a.get_u64("threads", 12) as usize;
    std::thread::scope(|sc| {
        for _ in 0..nthreads {
            sc.spawn(|| loop {
                let i = next.fetch_add(1, std::sync::atomic::Ordering::SeqCst);
                if i >= groups.len() {
                    break;
                }
                let g = &groups[i];
                let mut args: Vec<String> = vec![
                    "--mode".into(), "group".into(), "--group".into(), g.clone(), "--seed".into(), a.seed.to_string(),
                    "--tier".into(), a.tier.clone(), "--out".into(), a.out.display().to_string(),
                ];
                if let Some(s) = &a.subject {
                    args.push("--subject".into());
                    args.push(s.clone());
                }
                let out = run_child(&args, if a.thorough() { 3000 } else { 600 }, 0, false);
                results.lock().unwrap().push((g.clone(), out));
            });
        }
    });
    let mut per_subject = serde_json::Map::new();
    let (mut events, mut runs) = (0usize, 0usize);
    let mut files: Vec<String> = vec![];
    let mut crashed = vec![];
    let mut tr = Tracer::new(&a.out, "ps-zz-extra");
    for (g, out) in results.into_inner().unwrap() {
        let p = a.out.join(format!("group-{}.json", g.replace(':', "_")));
        let ok = matches!(out, ChildOutcome::Exit(0));
        if ok {
            if let Ok(t) = std::fs::read_to_string(&p) {
                let v: Value = serde_json::from_str(&t).unwrap_or(json!({}));
                events += v["events"].as_u64().unwrap_or(0) as usize;
                runs += v["runs"].as_u64().unwrap_or(0) as usize;
                if let Some(o) = v["subjects"].as_object() {
                    for (k, x) in o {
                        per_subject.insert(k.clone(), x.clone());
                    }
                }
                if let Some(f) = v["files"].as_array() {
                    files.extend(f.iter().filter_map(|x| x.as_str().map(String::from)));
                }
            }
            let _ = std::fs::remove_file(&p);
        } else {
            // the child died: the traces it flushed are kept; the crash itself is an event no contract action matches
            crashed.push(format!("{g}: {out:?}"));
            tr.reset("packedseq", &format!("{g}:*"), json!({"fam": g.split(':').next().unwrap_or(""), "variant": "*", "mode": "crash"}));
            tr.ev(json!({"op":"crash","group":g,"outcome":format!("{out:?}")}));
        }
    }
    let wn = run_witnesses(a, &mut tr);
    tr.close();
    events += tr.total_events;
    runs += tr.runs;
    let _ = wn;
    files.extend(tr.files.iter().map(|p| p.display().to_string()));
    write_summary(&a.out, &json!({"mode":"drive","events":events,"runs":runs,"files":files,"subjects":per_subject,"crashed_groups":crashed}));
}

// ---------------------------------------------------------------- B2: TLC-generated push/set histories

/// concretisations of the abstract values a < b < c, per subject
fn concretisations(name: &str) -> Vec<(&'static str, [i128; 3])> {
    let m58 = (1i128 << 58) - 1;
    match fam_of(name) {
        "uintvec" => vec![("small", [0, 1, 2]), ("wide", [0, 255, u32::MAX as i128]), ("high", [u32::MAX as i128 - 2, u32::MAX as i128 - 1, u32::MAX as i128])],
        "sorted" => vec![("small", [0, 1, 2]), ("wide", [5, 60000, 65540]), ("high", [(1 << 32) - 3, (1 << 32) - 2, (1 << 32) - 1])],
        _ => vec![("small", [0, 1, 2]), ("wide", [0, 255, 1 << 40]), ("high", [m58 - 2, m58 - 1, m58]), ("grow", [1, 1 << 20, m58])],
    }
}

fn replay(a: &Args) {
    let input = a.input.clone().expect("--in");
    let text = std::fs::read_to_string(&input).expect("read behaviours");
    let behaviours: Vec<Value> = text.lines().filter(|l| !l.trim().is_empty()).map(|l| serde_json::from_str(l).expect("behaviour json")).collect();
    let subs: Vec<String> = ["uintvec:push", "uvm0:push", "zipint:push", "sorted:default:b4", "sorted:mem:b5", "sorted:wide:b4"]
        .iter().map(|s| s.to_string()).filter(|s| a.wants(s)).collect();
    let sample_every = a.get_u64("sample", 20);
    let max_mismatch = a.get_u64("max_mismatch", 60) as usize;
    let mut tr = Tracer::new(&a.out, "psb2");
    tr.max_events = 4000;
    let mut per_subject = serde_json::Map::new();
    let mut total_exec = 0usize;
    for name in &subs {
        let mut st = Stats::new();
        let (mut executed, mut skipped, mut mism, mut written) = (0usize, 0usize, 0usize, 0usize);
        let mut rng = Rng::new(a.seed).derive("b2").derive(name);
        for (cname, conc) in concretisations(name) {
            let val = |v: &Value| -> i128 {
                match v.as_str().unwrap_or("a") {
                    "a" => conc[0],
                    "b" => conc[1],
                    _ => conc[2],
                }
            };
            for (bi, b) in behaviours.iter().enumerate() {
                let steps = match b.as_array() {
                    Some(x) => x,
                    None => continue,
                };
                let is_builder = fam_of(name) == "sorted";
                if steps.iter().any(|s| s["op"] == "set") && (is_builder || fam_of(name) == "uintvec") {
                    skipped += 1;
                    continue;
                }
                let mut c = match guard(|| empty(name)) {
                    Ok(Some(c)) => c,
                    _ => break,
                };
                let mut evs: Vec<Value> = vec![json!({"op":"build","xs":[],"ok":true})];
                let mut differs = false;
                let mut dead = false;
                for (si, stp) in steps.iter().enumerate() {
                    let x = val(&stp["v"]);
                    let i = stp["i"].as_u64().unwrap_or(0) as usize;
                    let e = match stp["op"].as_str().unwrap_or("") {
                        "push" => match guard(|| c.push(x)) {
                            Ok(Some(Ok(()))) => json!({"op":"push","x":c.show(x),"ok":true}),
                            Ok(Some(Err(e))) => json!({"op":"push","x":c.show(x),"ok":false,"err":e}),
                            Ok(None) => json!(null),
                            Err(m) => panic_ev("push", &m, json!({"x":c.show(x)})),
                        },
                        "set" => match guard(|| c.set(i, x)) {
                            Ok(Some(())) => json!({"op":"set","i":idx(i),"x":c.show(x),"ok":true}),
                            Ok(None) => json!(null),
                            Err(m) => json!({"op":"set","i":idx(i),"x":c.show(x),"ok":false,"how":"panic","msgk":msgk(&m),"msg":m}),
                        },
                        _ => json!(null),
                    };
                    if e.is_null() {
                        break;
                    }
                    let stop = e["op"] == "panic" || e["how"] == "panic";
                    if e["ok"] == json!(false) || stop {
                        differs = true;
                    }
                    evs.push(e);
                    if stop {
                        dead = true;
                        break;
                    }
                    // the builder can be read only after finish(): at the end of the history
                    let last = si + 1 == steps.len();
                    if is_builder {
                        if !last {
                            continue;
                        }
                        match guard(|| c.finish()) {
                            Ok(Some(Ok(()))) => evs.push(json!({"op":"finish","ok":true})),
                            Ok(Some(Err(e))) => {
                                evs.push(json!({"op":"finish","ok":false,"err":e}));
                                differs = true;
                                break;
                            }
                            Ok(None) => {}
                            Err(m) => {
                                evs.push(panic_ev("finish", &m, json!({})));
                                differs = true;
                                dead = true;
                                break;
                            }
                        }
                    }
                    // the state after the step as computed by TLC (equality only)
                    let exp: Vec<String> = stp["st"].as_array().map(|q| q.iter().map(|v| c.show(val(v))).collect()).unwrap_or_default();
                    let rb = ev_readback(c.as_ref(), exp.len() + 4, "get");
                    let got_ok = rb["op"] == "readback" && rb["n"].as_u64() == Some(exp.len() as u64) && rb["out"].as_array().map_or(false, |o| o.iter().map(|v| v.as_str().unwrap_or("")).eq(exp.iter().map(|s| s.as_str())));
                    if !got_ok {
                        differs = true;
                    }
                    let rbp = rb["op"] == "panic";
                    evs.push(rb);
                    if rbp {
                        dead = true;
                        break;
                    }
                    if let Some(e2) = ev_readback2(c.as_ref(), exp.len() + 4) {
                        let p2 = e2["op"] == "panic";
                        evs.push(e2);
                        if p2 {
                            differs = true;
                            dead = true;
                            break;
                        }
                    }
                    let n = exp.len();
                    let mut g = vec![ev_get(c.as_ref(), n, "get")];
                    g.extend(ev_get2(c.as_ref(), n.saturating_sub(1)));
                    if n > 0 {
                        g.push(ev_get(c.as_ref(), n - 1, "get"));
                    }
                    if g.iter().any(|p| p["how"] == "value" && p["r"][0].as_str() != exp.last().map(|s| s.as_str())) {
                        differs = true;
                    }
                    evs.push(json!({"op":"probes","g":g}));
                }
                if dead {
                    std::mem::forget(c);
                }
                executed += 1;
                total_exec += 1;
                let sampled = rng.below(sample_every) == 0;
                if differs {
                    mism += 1;
                }
                if (differs && written < max_mismatch) || sampled {
                    if differs {
                        written += 1;
                    }
                    let mut m = meta(name, a, json!({"mode":"b2","conc":cname,"behaviour":bi,"differs":differs}));
                    m["d"] = describe(name, &conc);
                    tr.reset("packedseq", name, m);
                    for e in evs {
                        put(&mut tr, &mut st, e);
                    }
                }
            }
        }
        per_subject.insert(name.clone(), json!({"behaviours":executed,"skipped":skipped,"mismatching":mism,"mismatch_traces_written":written,"events":st.events}));
    }
    tr.close();
    write_summary(&a.out, &json!({"mode":"replay","behaviours":behaviours.len(),"executions":total_exec,"events":tr.total_events,"runs":tr.runs,
        "files":tr.files.iter().map(|p|p.display().to_string()).collect::<Vec<_>>(),"subjects":per_subject}));
}

fn main() {
    let a = Args::parse();
    quiet_panics();
    match a.mode.as_str() {
        "drive" => drive(&a),
        "group" => group(&a),
        "replay" => replay(&a),
        "witness" => witness_child(&a),
        "subjects" => {
            for s in subjects() {
                println!("{s}");
            }
        }
        m => {
            eprintln!("c09: unknown mode {m}");
            std::process::exit(2)
        }
    }
}
