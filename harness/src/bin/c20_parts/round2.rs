// C20, coverage round: more entry points (conversions, constructors, twins, utilities), SIMD chunk
// boundary families, rectangular haystack x needle families.  Included by ../c20.rs.

use zipora::string::utils::{lex_utils, line_utils};
use zipora::string::{is_punctuation, is_whitespace, is_word_char, sse42_multi_search, utf8_byte_count, validate_utf8_and_count_chars, SimdStringSearch, Utf8ToUtf32Iterator};

// ---------------------------------------------------------------- SIMD chunk boundaries

/// a non-periodic base string of n lower-case bytes
fn base_bytes(n: usize) -> Vec<u8> {
    (0..n).map(|i| b'b' + ((i * 7 + i / 5) % 21) as u8).collect()
}

/// For a length n: the base string, and for every position d around the 8/16/32/64-byte chunk
/// boundaries (and the two last positions) a copy whose FIRST difference is at d:
///   - byte d raised to 0x80 (unsigned greater / signed smaller),
///   - byte d lowered by one and a later byte of the same 8-byte word raised (two differences of
///     opposite direction: word-wise little/big-endian confusions),
///   - the prefix of length d (a tail shorter than a chunk).
fn boundary_families(thorough: bool) -> Vec<(String, Vec<Vec<u8>>)> {
    let quick = [9usize, 16, 17, 24, 33, 48, 64, 65, 129];
    let more = [8usize, 15, 31, 32, 40, 63, 72, 96, 127, 128, 130, 200];
    let mut lens: Vec<usize> = quick.to_vec();
    if thorough {
        lens.extend_from_slice(&more);
    }
    let mut fams = vec![];
    for n in lens {
        let b = base_bytes(n);
        let mut ds: Vec<usize> = vec![0, 1, 6, 7, 8, 9, 14, 15, 16, 17, 30, 31, 32, 33, 47, 48, 62, 63, 64, 65, 126, 127, 128];
        ds.push(n - 2);
        ds.push(n - 1);
        ds.retain(|&d| d < n);
        ds.sort();
        ds.dedup();
        let mut v = vec![b.clone(), b.clone()];
        for &d in &ds {
            let mut x = b.clone();
            x[d] = 0x80;
            v.push(x);
            let mut y = b.clone();
            y[d] -= 1;
            let k = [1usize, 3, 7].iter().map(|k| d + k).filter(|&j| j < n).last();
            if let Some(j) = k {
                y[j] += 1;
            }
            v.push(y);
            if d % 3 != 2 {
                v.push(b[..d].to_vec());
            }
        }
        let mut z = b.clone();
        z.push(0x00);
        v.push(z);
        fams.push((format!("bound{n}"), v));
    }
    fams
}

/// haystacks x needles around the chunk boundaries: the needle (length m) placed at offset p, after a
/// near miss (the needle with its last byte changed), absent, and in a haystack one byte too short
fn find_families(thorough: bool) -> Vec<(String, Vec<Vec<u8>>, Vec<Vec<u8>>)> {
    let ms: Vec<usize> = if thorough { vec![1, 2, 3, 4, 5, 7, 8, 9, 15, 16, 17, 31, 32, 33, 40, 63, 64, 65, 100] } else { vec![1, 2, 4, 8, 16, 17, 32, 33, 64, 65] };
    let ps: [usize; 12] = [0, 1, 15, 16, 17, 31, 32, 33, 47, 63, 64, 65];
    let filler = |n: usize, salt: usize| -> Vec<u8> { (0..n).map(|i| b'a' + ((i * 3 + salt) % 23) as u8).collect() };
    let mut fams = vec![];
    for m in ms {
        let needle: Vec<u8> = (0..m).map(|i| b'A' + ((i * 5 + i / 3) % 19) as u8).collect();
        let mut near = needle.clone();
        *near.last_mut().unwrap() = b'Z';
        let mut hays: Vec<Vec<u8>> = vec![];
        for (k, &p) in ps.iter().enumerate() {
            let tail = if k % 2 == 0 { 0 } else { 5 };
            hays.push(cat(&[&filler(p, k), &needle, &filler(tail, 1)]));
            if k % 3 == 0 {
                // a near miss first, the real occurrence later
                hays.push(cat(&[&filler(p, k), &near, &filler(3, 2), &needle]));
            }
        }
        hays.push(needle.clone());
        hays.push(needle[..m - 1].to_vec());
        hays.push(cat(&[&filler(40, 3), &needle[..m - 1]]));
        hays.push(filler(70, 4));
        hays.push(cat(&[&needle[1..], &needle[1..], &needle]));
        hays.push(cat(&[&filler(64, 5), &near]));
        let mut needles = vec![needle.clone(), near.clone(), vec![needle[0]], vec![b'Z'], b"bcd".to_vec(), filler(20, 0)];
        if m > 1 {
            needles.push(needle[1..].to_vec());
            needles.push(needle[..m - 1].to_vec());
        }
        needles.push(cat(&[&needle, b"!"]));
        fams.push((format!("find{m}"), hays, needles));
    }
    fams
}

fn drive_find_families(t: &mut Tracer, a: &Args, st: &mut Stats) {
    let fams = find_families(a.thorough());
    let inst = SimdStringSearch::new();
    group(t, 60);
    for (subject, via) in [
        ("faststr:find", "find"),
        ("simd:sse42_strstr", "sse42_strstr"),
        ("simd:sse42_strstr", "inst_sse42_strstr"),
    ] {
        if !a.wants(subject) {
            continue;
        }
        for (fam, hays, needles) in &fams {
            rst(t, subject, json!({"fam":"findfam","variant":fam,"via":via}));
            let ph: Vec<Placed> = hays.iter().enumerate().map(|(i, s)| Placed::new(s, (i * 5 + 1) % 19)).collect();
            let pn: Vec<Placed> = needles.iter().enumerate().map(|(i, s)| Placed::new(s, (i * 3 + 2) % 11)).collect();
            let r = guard(|| {
                matrix(hays.len(), needles.len(), |i, j| {
                    json!(opos(match via {
                        "find" => ph[i].fs().find(pn[j].fs()),
                        "sse42_strstr" => sse42_strstr(ph[i].bytes(), pn[j].bytes()),
                        _ => inst.sse42_strstr(ph[i].bytes(), pn[j].bytes()),
                    }))
                })
            });
            match r {
                Ok(m) => t.ev(json!({"op":"find_matrix","via":via,"a":pool_json(hays),"b":pool_json(needles),"m":m})),
                Err(e) => panic_ev(t, "find_matrix", e),
            }
            st.add(subject, (hays.len() * needles.len()) as u64);
            st.pairs(subject, hays, needles);
        }
    }
    // single bytes in the same haystacks
    for (subject, via) in [("faststr:find_byte", "find_byte_optimized"), ("simd:sse42_strchr", "sse42_strchr"), ("simd:sse42_strchr", "inst_sse42_strchr")] {
        if !a.wants(subject) {
            continue;
        }
        for (fam, hays, _) in &fams {
            rst(t, subject, json!({"fam":"findfam","variant":fam,"via":via}));
            let bytes: Vec<u8> = vec![b'A', b'Z', b'a', b'w', b'!', 0x00, 0xff];
            let ph: Vec<Placed> = hays.iter().enumerate().map(|(i, s)| Placed::new(s, (i * 5 + 3) % 17)).collect();
            let hj = Value::Array(hays.iter().filter(|h| !h.is_empty()).map(|h| bj(h)).collect());
            let idx: Vec<usize> = (0..hays.len()).filter(|&i| !hays[i].is_empty()).collect();
            let r = guard(|| {
                matrix(idx.len(), bytes.len(), |i, k| {
                    json!(opos(match via {
                        "find_byte_optimized" => ph[idx[i]].fs().find_byte_optimized(bytes[k]),
                        "sse42_strchr" => sse42_strchr(ph[idx[i]].bytes(), bytes[k]),
                        _ => inst.sse42_strchr(ph[idx[i]].bytes(), bytes[k]),
                    }))
                })
            });
            match r {
                Ok(m) => t.ev(json!({"op":"find_byte","via":via,"a":hj,"bytes":bytes,"m":m})),
                Err(e) => panic_ev(t, "find_byte", e),
            }
            st.add(subject, (idx.len() * bytes.len()) as u64);
            st.singles(subject, hays);
        }
    }
}

/// FastStr on the chunk-boundary families: ordering, equality, prefix/suffix, common prefix, hashes
/// (the quadratic find matrix is left to the haystack x needle families)
fn drive_boundaries(t: &mut Tracer, a: &Args, st: &mut Stats) {
    let fams = boundary_families(a.thorough());
    let inst = SimdStringSearch::new();
    group(t, 40);
    for (fam, pool) in &fams {
        let pa = place_all(pool, 4);
        let pb = place_all(pool, 5);
        let n = pool.len();
        let pj = pool_json(pool);
        let cells = (n * n) as u64;
        for (subject, op) in [
            ("faststr:cmp", "cmp_matrix"),
            ("faststr:eq", "eq_matrix"),
            ("faststr:starts_with", "starts_matrix"),
            ("faststr:ends_with", "ends_matrix"),
            ("faststr:common_prefix_len", "cpl_matrix"),
        ] {
            if !a.wants(subject) {
                continue;
            }
            rst(t, subject, json!({"fam":"faststr","variant":fam}));
            let vias: &[&str] = if op == "cmp_matrix" { &["cmp", "compare"] } else { &["eq"] };
            for via in vias {
                let r = guard(|| {
                    matrix(n, n, |i, j| {
                        let (x, y) = (pa[i].fs(), pb[j].fs());
                        match op {
                            "cmp_matrix" => json!(ord(if *via == "cmp" { x.cmp(&y) } else { x.compare(y) })),
                            "eq_matrix" => json!(x == y),
                            "starts_matrix" => json!(x.starts_with(y)),
                            "ends_matrix" => json!(x.ends_with(y)),
                            _ => json!(x.common_prefix_len(y)),
                        }
                    })
                });
                match r {
                    Ok(m) => t.ev(json!({"op":op,"via":via,"a":pj,"b":pj,"m":m,"sq":n <= 64})),
                    Err(e) => panic_ev(t, op, e),
                }
                st.add(subject, cells);
            }
            st.pairs(subject, pool, pool);
        }
        for (subject, via) in [("faststr:hash_fast", "hash_fast"), ("faststr:hash_std", "hash_std")] {
            if !a.wants(subject) {
                continue;
            }
            rst(t, subject, json!({"fam":"faststr","variant":fam}));
            let offs = [0usize, 1, 3, 7, 8, 15, 16, 31, 33];
            let h: Vec<Value> = pool
                .iter()
                .map(|s| {
                    Value::Array(
                        offs.iter()
                            .map(|&o| {
                                let p = Placed::new(s, o);
                                let v = if via == "hash_fast" {
                                    p.fs().hash_fast()
                                } else {
                                    let mut hs = std::collections::hash_map::DefaultHasher::new();
                                    p.fs().hash(&mut hs);
                                    hs.finish()
                                };
                                json!(v.to_string())
                            })
                            .collect(),
                    )
                })
                .collect();
            t.ev(json!({"op":"hash","via":via,"pool":pj,"h":h}));
            st.add(subject, (n * offs.len()) as u64);
            st.singles(subject, pool);
        }
    }
    // the SIMD comparison on the same families (global function and instance method)
    if a.wants("simd:sse42_strcmp") {
        group(t, 40);
        for (fam, pool) in &fams {
            let pa = place_all(pool, 6);
            let pb = place_all(pool, 7);
            let n = pool.len();
            for via in ["sse42_strcmp", "inst_sse42_strcmp"] {
                rst(t, "simd:sse42_strcmp", json!({"fam":"simd","variant":fam,"via":via}));
                let r = guard(|| {
                    matrix(n, n, |i, j| json!(ord(if via == "sse42_strcmp" { sse42_strcmp(pa[i].bytes(), pb[j].bytes()) } else { inst.sse42_strcmp(pa[i].bytes(), pb[j].bytes()) })))
                });
                match r {
                    Ok(m) => t.ev(json!({"op":"cmp_matrix","via":via,"a":pool_json(pool),"b":pool_json(pool),"m":m,"sq":false})),
                    Err(e) => panic_ev(t, "cmp_matrix", e),
                }
                st.add("simd:sse42_strcmp", (n * n) as u64);
            }
            st.pairs("simd:sse42_strcmp", pool, pool);
        }
    }
}

// ---------------------------------------------------------------- sse42_multi_search

fn drive_multi_search(t: &mut Tracer, a: &Args, st: &mut Stats, rng: &Rng) {
    if !a.wants("simd:sse42_multi_search") {
        return;
    }
    let inst = SimdStringSearch::new();
    let mut hays: Vec<Vec<u8>> = vec![vec![], b"a".to_vec(), b"hello world".to_vec(), vec![0xff, 0x00, 0x80, 0x7f, 0xff]];
    for n in [15usize, 16, 17, 31, 32, 33, 35, 36, 47, 48, 63, 64, 65, 100] {
        hays.push(base_bytes(n));
        let mut x = base_bytes(n);
        x[n - 1] = b'!';
        x[0] = b'!';
        hays.push(x);
    }
    let mut r = rng.derive("multi");
    for _ in 0..(if a.thorough() { 30 } else { 6 }) {
        let n = r.below(90) as usize;
        hays.push((0..n).map(|_| *r.pick(&[b'a', b'b', b'!', 0x80u8, 0xff, b'z'])).collect());
    }
    let needle_sets: Vec<Vec<u8>> = vec![
        vec![],
        vec![b'!'],
        vec![b'b', b'!'],
        vec![0xff, 0x80, 0x00],
        b"aeiou".to_vec(),
        b"bcdefghijklmnopq".to_vec(),   // 16
        b"bcdefghijklmnopqr".to_vec(),  // 17
        b"!bcdefghijklmnopqrstuv".to_vec(),
        vec![b'!', b'!'],
    ];
    for via in ["sse42_multi_search", "inst_sse42_multi_search"] {
        rst(t, "simd:sse42_multi_search", json!({"fam":"simd","variant":via}));
        let mut cases = vec![];
        for h in &hays {
            for ns in &needle_sets {
                let ph = Placed::new(h, 3);
                match guard(|| if via == "sse42_multi_search" { sse42_multi_search(ph.bytes(), ns) } else { inst.sse42_multi_search(ph.bytes(), ns) }) {
                    Ok(res) => cases.push(json!({"h":bj(h),"n":bj(ns),"ok":true,"pos":res.positions,"ch":res.characters})),
                    Err(_) => cases.push(json!({"h":bj(h),"n":bj(ns),"ok":false,"pos":[],"ch":[]})),
                }
                st.add("simd:sse42_multi_search", 1);
                if !h.is_empty() && !ns.is_empty() {
                    st.case("simd:sse42_multi_search", &[h, ns]);
                }
                if cases.len() >= 60 {
                    t.ev(json!({"op":"multi_search","via":via,"cases":cases}));
                    cases = vec![];
                }
            }
        }
        if !cases.is_empty() {
            t.ev(json!({"op":"multi_search","via":via,"cases":cases}));
        }
    }
}

// ---------------------------------------------------------------- FastStr conversions, constructors, split

fn utf8_pool(rng: &Rng, thorough: bool) -> Vec<Vec<u8>> {
    let al: [&[u8]; 4] = [b"a", &[0xc3], &[0xa9], &[0xff]];
    let mut v = exhaustive(&al, if thorough { 4 } else { 3 });
    let fixed: Vec<&[u8]> = vec![
        "\u{e9}".as_bytes(),
        "\u{20ac}".as_bytes(),
        "\u{1d11e}".as_bytes(),
        "a\u{e9}\u{20ac}\u{1d11e}z".as_bytes(),
        "\u{7f}\u{80}\u{7ff}\u{800}\u{ffff}\u{10000}\u{10ffff}".as_bytes(),
        "\u{d7ff}\u{e000}".as_bytes(),
        &[0xc0, 0x80],             // overlong
        &[0xc1, 0xbf],             // overlong
        &[0xe0, 0x80, 0x80],       // overlong
        &[0xe0, 0x9f, 0xbf],       // overlong
        &[0xed, 0xa0, 0x80],       // surrogate
        &[0xed, 0xbf, 0xbf],       // surrogate
        &[0xf0, 0x80, 0x80, 0x80], // overlong
        &[0xf0, 0x8f, 0xbf, 0xbf], // overlong
        &[0xf4, 0x90, 0x80, 0x80], // beyond U+10FFFF
        &[0xf5, 0x80, 0x80, 0x80],
        &[0xf8, 0x88, 0x80, 0x80, 0x80],
        &[0xe2, 0x82],             // truncated
        &[0xf0, 0x9d, 0x84],       // truncated
        &[0x80],
        &[0xbf, 0x61],
        &[0x61, 0xe2, 0x82, 0x61],
    ];
    v.extend(fixed.iter().map(|s| s.to_vec()));
    // long inputs: everything ASCII, or one multi-byte / ill-formed byte at a chunk boundary
    for n in [31usize, 32, 33, 63, 64, 65, 96] {
        v.push(vec![b'x'; n]);
        for at in [0usize, 15, 16, 30, 31, 32, 62, 63, 64] {
            if at + 1 < n {
                let mut ok = vec![b'x'; n];
                ok[at] = 0xc3;
                ok[at + 1] = 0xa9;
                v.push(ok);
                let mut bad = vec![b'x'; n];
                bad[at] = 0xff;
                v.push(bad);
                let mut cut = vec![b'x'; n];
                cut[n - 1] = 0xc3; // truncated at the very end
                v.push(cut);
            }
        }
    }
    let mut r = rng.derive("utf8");
    let chars = ["a", "\u{e9}", "\u{20ac}", "\u{1d11e}", "\u{0}", " ", "Z"];
    for _ in 0..(if thorough { 40 } else { 10 }) {
        let n = r.below(30) as usize;
        let mut s = String::new();
        for _ in 0..n {
            let w: &&str = r.pick(&chars[..]);
            s.push_str(w);
        }
        let mut b = s.into_bytes();
        if r.chance(1, 3) && !b.is_empty() {
            let i = r.below(b.len() as u64) as usize;
            b[i] = *r.pick(&[0x80u8, 0xff, 0xc3, 0xe2]);
        }
        v.push(b);
    }
    v.sort();
    v.dedup();
    v
}

fn drive_fs_conv(t: &mut Tracer, a: &Args, st: &mut Stats, rng: &Rng) {
    if a.wants("faststr:conv") {
        group(t, 200);
        rst(t, "faststr:conv", json!({"fam":"faststr","variant":"conv"}));
        for (k, s) in utf8_pool(rng, a.thorough()).iter().enumerate() {
            if k > 0 && k % 200 == 0 {
                rst(t, "faststr:conv", json!({"fam":"faststr","variant":"conv"}));
            }
            let p = Placed::new(s, k % 9);
            let r = guard(|| {
                let x = p.fs();
                let raw = unsafe { FastStr::from_raw_parts(p.bytes().as_ptr(), p.bytes().len()) };
                let gbu: Vec<u8> = (0..x.len()).map(|i| unsafe { x.get_byte_unchecked(i) }).collect();
                let as_str = x.as_str().map(|v| v.as_bytes().to_vec());
                let unchecked = if as_str.is_some() { unsafe { x.as_str_unchecked() }.as_bytes().to_vec() } else { vec![] };
                // an equal copy at another address and a copy that differs (one byte appended)
                let same = Placed::new(s, (k + 4) % 13);
                let mut other_b = s.clone();
                other_b.push(0x01);
                let other = Placed::new(&other_b, 2);
                let mut eqs = vec![
                    json!({"k":"eq_slice","r": x == *same.bytes(),"want":true}),
                    json!({"k":"eq_slice","r": x == *other.bytes(),"want":false}),
                    json!({"k":"eq_ref_slice","r": x == same.bytes(),"want":true}),
                    json!({"k":"eq_ref_slice","r": x == other.bytes(),"want":false}),
                    json!({"k":"from_slice","r": FastStr::from(same.bytes()) == x,"want":true}),
                    json!({"k":"from_slice","r": FastStr::from(other.bytes()) == x,"want":false}),
                    json!({"k":"as_ref","r": AsRef::<[u8]>::as_ref(&x) == same.bytes(),"want":true}),
                    json!({"k":"raw_eq","r": raw == x,"want":true}),
                ];
                // the str-typed twins need a &str of the same bytes: only for inputs std accepts as UTF-8
                // (input preparation; TLC decides validity itself from the bytes)
                if let (Ok(ss), Ok(os)) = (std::str::from_utf8(same.bytes()), std::str::from_utf8(other.bytes())) {
                    eqs.push(json!({"k":"eq_str","r": x == *ss,"want":true}));
                    eqs.push(json!({"k":"eq_str","r": x == *os,"want":false}));
                    eqs.push(json!({"k":"eq_ref_str","r": x == ss,"want":true}));
                    eqs.push(json!({"k":"eq_ref_str","r": x == os,"want":false}));
                    eqs.push(json!({"k":"eq_string","r": x == ss.to_string(),"want":true}));
                    eqs.push(json!({"k":"eq_string","r": x == os.to_string(),"want":false}));
                    eqs.push(json!({"k":"from_str","r": FastStr::from(ss) == x,"want":true}));
                    eqs.push(json!({"k":"from_string_fn","r": FastStr::from_string(ss) == x,"want":true}));
                    eqs.push(json!({"k":"from_string_fn","r": FastStr::from_string(os) == x,"want":false}));
                }
                json!({"op":"fs_conv","s":bj(s),"raw":bj(raw.as_bytes()),"len":x.len(),"empty":x.is_empty(),"gbu":bj(&gbu),
                       "valid":as_str.is_some(),"str":bj(as_str.as_deref().unwrap_or(&[])),"unchecked":bj(&unchecked),
                       "owned":bj(x.into_string().as_bytes()),"cow":bj(x.to_cow_str().as_bytes()),"eqs":eqs})
            });
            match r {
                Ok(e) => t.ev(e),
                Err(m) => panic_ev(t, "fs_conv", m),
            }
            st.add("faststr:conv", 12);
            st.singles("faststr:conv", std::slice::from_ref(s));
        }
    }
    if a.wants("faststr:split") {
        group(t, 200);
        rst(t, "faststr:split", json!({"fam":"faststr","variant":"split"}));
        let al: [&[u8]; 3] = [b"a", b",", &[0xff]];
        let mut pool = exhaustive(&al, if a.thorough() { 5 } else { 4 });
        pool.push(b"a,b,,c,".to_vec());
        pool.push(cat(&[&base_bytes(70), b",", &base_bytes(3), b",,"]));
        for s in &pool {
            let p = Placed::new(s, 1);
            let mut cases = vec![];
            for d in [b',', 0xffu8, b'a', b'x'] {
                match guard(|| p.fs().split(d).map(|f| f.as_bytes().to_vec()).collect::<Vec<Vec<u8>>>()) {
                    Ok(r) => cases.push(json!({"d":d,"ok":true,"r":pool_json(&r)})),
                    Err(_) => cases.push(json!({"d":d,"ok":false,"r":[]})),
                }
            }
            t.ev(json!({"op":"fs_split","s":bj(s),"cases":cases}));
            st.add("faststr:split", 4);
            st.singles("faststr:split", std::slice::from_ref(s));
        }
    }
}

// ---------------------------------------------------------------- lexicographic_iterator::utils

fn drive_lex_utils(t: &mut Tracer, a: &Args, st: &mut Stats, rng: &Rng) {
    let lists = lexiter_lists(rng, a.thorough());
    for subject in ["lexutils:sortedvec", "lexutils:streaming"] {
        if !a.wants(subject) {
            continue;
        }
        group(t, 200);
        let streaming = subject == "lexutils:streaming";
        for (fam, list) in &lists {
            if streaming && fam.starts_with("exh") && fam.len() > 4 {
                continue; // a stream refuses every seek: a few lists are enough to record the refusals
            }
            rst(t, subject, json!({"fam":"lexutils","variant":fam}));
            let mut prefixes: Vec<String> = vec!["".into(), "a".into(), "a\u{e9}".into(), "b".into(), "z".into(), "\u{e9}".into(), "aa".into(), "k".into()];
            for s in list {
                if !prefixes.contains(s) {
                    prefixes.push(s.clone());
                }
                if let Some(c) = s.chars().next() {
                    let p = c.to_string();
                    if !prefixes.contains(&p) {
                        prefixes.push(p);
                    }
                }
            }
            let r = guard(|| {
                let collect = if streaming {
                    lex_utils::collect_all(StreamingLexIterator::new(stream_of(list))).ok()
                } else {
                    lex_utils::collect_all(SortedVecLexIterator::new(list)).ok()
                };
                let lcp = if streaming {
                    lex_utils::find_common_prefix(StreamingLexIterator::new(stream_of(list))).ok()
                } else {
                    lex_utils::find_common_prefix(SortedVecLexIterator::new(list)).ok()
                };
                let counts: Vec<Value> = prefixes
                    .iter()
                    .map(|p| {
                        let c = if streaming {
                            lex_utils::count_with_prefix(StreamingLexIterator::new(stream_of(list)), p).ok()
                        } else {
                            lex_utils::count_with_prefix(SortedVecLexIterator::new(list), p).ok()
                        };
                        json!({"p":bj(p.as_bytes()),"ok":c.is_some(),"n":c.unwrap_or(0)})
                    })
                    .collect();
                json!({"op":"li_utils","S":spool_json(list),
                       "collect":{"ok":collect.is_some(),"r":spool_json(&collect.unwrap_or_default())},
                       "lcp":{"ok":lcp.is_some(),"r":bj(lcp.unwrap_or_default().as_bytes())},
                       "counts":counts})
            });
            match r {
                Ok(e) => t.ev(e),
                Err(m) => panic_ev(t, "li_utils", m),
            }
            st.add(subject, 2 + prefixes.len() as u64);
            if !list.is_empty() {
                st.case(subject, &[&list.join("\n").into_bytes()]);
            }
        }
    }
}

// ---------------------------------------------------------------- sorted vectors, second round

fn drive_sorted2(t: &mut Tracer, a: &Args, st: &mut Stats, rng: &Rng) {
    let inputs = sorted_inputs(rng, a.thorough());
    group(t, 200);
    for (subject, kind) in [
        ("sorted:sortable_from_iter", "sortable_from_iter"),
        ("sorted:sortable_sort_by", "sortable_sort_by_rev"),
        ("sorted:sortable_sort_by_length", "sortable_sort_by_len"),
    ] {
        if !a.wants(subject) {
            continue;
        }
        for (fam, input) in &inputs {
            rst(t, subject, json!({"fam":"sorted","variant":fam}));
            let r = guard(|| -> Option<(Vec<String>, Vec<String>, usize, Vec<String>)> {
                let mut sv = if kind == "sortable_from_iter" {
                    SortableStrVec::from_iter(input.iter()).ok()?
                } else {
                    let mut sv = SortableStrVec::with_capacity(3);
                    for s in input {
                        sv.push(s.clone()).ok()?;
                    }
                    sv
                };
                match kind {
                    "sortable_from_iter" => sv.sort().ok()?,
                    "sortable_sort_by_rev" => sv.sort_by(|x, y| y.cmp(x)).ok()?, // the caller's order: descending
                    _ => sv.sort_by_length().ok()?,
                }
                let it: Vec<String> = sv.iter_sorted().map(|s| s.to_string()).collect();
                let gets: Vec<String> = (0..sv.len()).filter_map(|i| sv.get_sorted(i).map(|s| s.to_string())).collect();
                let ids: Vec<String> = (0..sv.len()).filter_map(|i| sv.get_by_id(i).map(|s| s.to_string())).collect();
                Some((it, gets, sv.len(), ids))
            });
            match r {
                Ok(Some((it, gets, n, ids))) => t.ev(json!({"op":"sorted_enum","kind":kind,"ok":true,"input":spool_json(input),"r":spool_json(&it),
                                                           "gets":spool_json(&gets),"n":n,"ids":spool_json(&ids)})),
                Ok(None) => t.ev(json!({"op":"sorted_enum","kind":kind,"ok":false,"input":spool_json(input),"r":[],"gets":[],"n":0,"ids":[]})),
                Err(m) => panic_ev(t, "sorted_enum", m),
            }
            st.add(subject, input.len() as u64);
            if input.len() > 1 {
                st.case(subject, &[&input.join("\n").into_bytes()]);
            }
        }
    }
    // numeric sort keys: the caller's order is decimal_strcmp; numerals at the machine-word boundaries
    if a.wants("sorted:sortable_sort_by_numeric") {
        let mut r = rng.derive("numsort");
        let plain = numeric_boundary_pools(false).remove(0).1;
        for round in 0..(if a.thorough() { 6 } else { 2 }) {
            let mut input: Vec<String> = vec![];
            for v in &plain {
                match r.below(6) {
                    0 => input.push(v.clone()),
                    1 => input.push(format!("-{v}")),
                    2 => input.push(format!("00{v}")),
                    3 => input.push(format!("+{v}")),
                    _ => {}
                }
            }
            input.push("18446744073709551616".into());
            input.push("18446744073709551615".into());
            input.push("0".into());
            input.push("5".into());
            r.shuffle(&mut input);
            rst(t, "sorted:sortable_sort_by_numeric", json!({"fam":"sorted","variant":format!("numeric{round}")}));
            let res = guard(|| -> Option<(Vec<String>, Vec<String>, usize, Vec<String>)> {
                let mut sv = SortableStrVec::new();
                for s in &input {
                    sv.push_str(s).ok()?;
                }
                sv.sort_by(|x, y| decimal_strcmp(x, y).unwrap_or(Ordering::Equal)).ok()?;
                let it: Vec<String> = sv.iter_sorted().map(|s| s.to_string()).collect();
                let gets: Vec<String> = (0..sv.len()).filter_map(|i| sv.get_sorted(i).map(|s| s.to_string())).collect();
                let ids: Vec<String> = (0..sv.len()).filter_map(|i| sv.get_by_id(i).map(|s| s.to_string())).collect();
                Some((it, gets, sv.len(), ids))
            });
            match res {
                Ok(Some((it, gets, n, ids))) => t.ev(json!({"op":"sorted_enum","kind":"sortable_sort_by_numeric","ok":true,"input":spool_json(&input),
                                                           "r":spool_json(&it),"gets":spool_json(&gets),"n":n,"ids":spool_json(&ids)})),
                Ok(None) => t.ev(json!({"op":"sorted_enum","kind":"sortable_sort_by_numeric","ok":false,"input":spool_json(&input),"r":[],"gets":[],"n":0,"ids":[]})),
                Err(m) => panic_ev(t, "sorted_enum", m),
            }
            st.add("sorted:sortable_sort_by_numeric", input.len() as u64);
            st.case("sorted:sortable_sort_by_numeric", &[&input.join("\n").into_bytes()]);
        }
    }
    // binary search over the sorted view (block search beyond 512 elements), contains
    let probes = ["", "a", "a\u{e9}", "aa", "b", "bb", "k", "\u{e9}", "\u{10ffff}", "pppppppppppppppp", "pppppppppppppppq", "A"];
    for (subject, kind) in [("sorted:sortable_binary_search", "sortable"), ("sorted:zo_binary_search", "zo")] {
        if !a.wants(subject) {
            continue;
        }
        for (fam, input) in &inputs {
            rst(t, subject, json!({"fam":"sorted","variant":fam}));
            let mut needles: Vec<String> = probes.iter().map(|s| s.to_string()).collect();
            for s in input.iter().step_by(1 + input.len() / 60) {
                if !needles.contains(s) {
                    needles.push(s.clone());
                }
            }
            let r = guard(|| -> Option<(Vec<String>, Vec<Value>)> {
                if kind == "sortable" {
                    let mut sv = SortableStrVec::new();
                    for s in input {
                        sv.push_str(s).ok()?;
                    }
                    sv.sort().ok()?;
                    let view: Vec<String> = sv.iter_sorted().map(|s| s.to_string()).collect();
                    let cases = needles
                        .iter()
                        .map(|nd| match sv.binary_search(nd) {
                            Ok(i) => json!({"t":bj(nd.as_bytes()),"found":true,"i":i,"contains":true}),
                            Err(i) => json!({"t":bj(nd.as_bytes()),"found":false,"i":i,"contains":false}),
                        })
                        .collect();
                    Some((view, cases))
                } else {
                    let mut s = input.clone();
                    s.sort(); // input preparation: the constructor demands sorted input
                    let z = ZoSortedStrVec::from_sorted_strings(s).ok()?;
                    let view: Vec<String> = z.iter().map(|s| s.to_string()).collect();
                    let cases = needles
                        .iter()
                        .map(|nd| match z.binary_search(nd) {
                            Ok(i) => json!({"t":bj(nd.as_bytes()),"found":true,"i":i,"contains":z.contains(nd)}),
                            Err(i) => json!({"t":bj(nd.as_bytes()),"found":false,"i":i,"contains":z.contains(nd)}),
                        })
                        .collect();
                    Some((view, cases))
                }
            });
            match r {
                Ok(Some((view, cases))) => t.ev(json!({"op":"bsearch","kind":kind,"ok":true,"v":spool_json(&view),"cases":cases})),
                Ok(None) => t.ev(json!({"op":"bsearch","kind":kind,"ok":false,"v":[],"cases":[]})),
                Err(m) => panic_ev(t, "bsearch", m),
            }
            st.add(subject, needles.len() as u64);
            if !input.is_empty() {
                for nd in &needles {
                    st.case(subject, &[nd.as_bytes(), &input.join("\n").into_bytes()]);
                }
            }
        }
    }
}

// ---------------------------------------------------------------- byte classes, line utilities, UTF-8

fn drive_charclass(t: &mut Tracer, a: &Args, st: &mut Stats) {
    if !a.wants("words:char_class") {
        return;
    }
    group(t, 50);
    rst(t, "words:char_class", json!({"fam":"words","variant":"tables"}));
    let w: Vec<bool> = (0..=255u8).map(is_word_char).collect();
    let s: Vec<bool> = (0..=255u8).map(is_whitespace).collect();
    let p: Vec<bool> = (0..=255u8).map(is_punctuation).collect();
    let u: Vec<usize> = (0..=255u8).map(utf8_byte_count).collect();
    t.ev(json!({"op":"charclass","w":w,"s":s,"p":p,"u8":u}));
    st.add("words:char_class", 1024);
    for c in 0..=255u8 {
        st.case("words:char_class", &[&[c]]);
    }
}

fn drive_line_utils(t: &mut Tracer, a: &Args, st: &mut Stats, rng: &Rng) {
    if !a.wants("lines:utils") {
        return;
    }
    group(t, 150);
    let al: [&[u8]; 4] = [b"a", b" ", b"\n", b"\r"];
    let mut texts = exhaustive(&al, if a.thorough() { 4 } else { 3 });
    for s in [
        "line1\nline2\n\nline4 with spaces\nline5,with,commas\n",
        "The cat the CAT\nthe   Cat\tTHE\r\n  \n",
        "one\ntwo words\n\nthree little words\nlongest line of them all here\nx",
        "\u{e9}t\u{e9} \u{e9}t\u{e9}\n\u{1d11e} a\r\n",
        "dup\ndup\nDup\ndup \n",
        "\n\n\n",
        "only",
    ] {
        texts.push(s.as_bytes().to_vec());
    }
    let mut r = rng.derive("lineutils");
    let words = ["a", "b", "A", " ", "  ", "\t", "\n", "\r\n", "word", "Word", "WORD", "\n\n"];
    for _ in 0..(if a.thorough() { 40 } else { 10 }) {
        let n = r.below(30) as usize;
        let mut s = String::new();
        for _ in 0..n {
            let w: &&str = r.pick(&words[..]);
            s.push_str(w);
        }
        texts.push(s.into_bytes());
    }
    rst(t, "lines:utils", json!({"fam":"lines","variant":"utils"}));
    for (k, text) in texts.iter().enumerate() {
        if k > 0 && k % 150 == 0 {
            rst(t, "lines:utils", json!({"fam":"lines","variant":"utils"}));
        }
        let lp = || LineProcessor::new(Cursor::new(text.clone()));
        let r = guard(|| {
            let filt: Vec<Value> = [(0usize, 0usize), (1, 3), (2, 1000), (0, 1000), (4, 2)]
                .iter()
                .map(|&(lo, hi)| match line_utils::filter_by_length(lp(), lo, hi) {
                    Ok(v) => json!({"min":lo,"max":hi,"ok":true,"r":spool_json(&v)}),
                    Err(_) => json!({"min":lo,"max":hi,"ok":false,"r":[]}),
                })
                .collect();
            let uniq = match line_utils::extract_unique_lines(lp()) {
                Ok(v) => json!({"ok":true,"r":spool_json(&v)}),
                Err(_) => json!({"ok":false,"r":[]}),
            };
            let an = match line_utils::analyze_text(lp()) {
                Ok(x) => json!({"ok":true,"lines":x.total_lines,"bytes":x.total_bytes,"chars":x.total_chars,"empty":x.empty_lines,
                                "maxlen":x.max_line_length,"words":x.total_words}),
                Err(_) => json!({"ok":false,"lines":0,"bytes":0,"chars":0,"empty":0,"maxlen":0,"words":0}),
            };
            let wf = match line_utils::count_word_frequencies(lp()) {
                Ok(m) => json!({"ok":true,"r":Value::Array(m.iter().map(|(w, c)| json!([bj(w.as_bytes()), c])).collect())}),
                Err(_) => json!({"ok":false,"r":[]}),
            };
            json!({"op":"line_utils","text":bj(text),"filt":filt,"uniq":uniq,"an":an,"wf":wf})
        });
        match r {
            Ok(e) => t.ev(e),
            Err(m) => panic_ev(t, "line_utils", m),
        }
        st.add("lines:utils", 8);
        if !text.is_empty() {
            st.case("lines:utils", &[text]);
        }
    }
}

fn drive_utf8(t: &mut Tracer, a: &Args, st: &mut Stats, rng: &Rng) {
    if !a.wants("unicode:utf8") {
        return;
    }
    group(t, 60);
    rst(t, "unicode:utf8", json!({"fam":"unicode","variant":"utf8"}));
    let mut cases = vec![];
    for s in utf8_pool(rng, a.thorough()) {
        let p = Placed::new(&s, 5);
        let r = guard(|| {
            let v = validate_utf8_and_count_chars(p.bytes()).ok();
            let (mut fwd, mut fpos, mut bwd, mut bpos) = (vec![], vec![], vec![], vec![]);
            let mut cps: Vec<u32> = vec![];
            let mut an = json!({"chars":0,"bytes":0,"ascii":0,"latin1":0,"ext":0,"other":0});
            let iter_ok = match Utf8ToUtf32Iterator::new(p.bytes()) {
                Ok(mut it) => {
                    let mut budget = s.len() + 2;
                    while let Some(c) = it.next_char() {
                        fwd.push(c as u32);
                        fpos.push(it.byte_position());
                        budget -= 1;
                        if budget == 0 {
                            break;
                        }
                    }
                    let mut budget = s.len() + 2;
                    while let Some(c) = it.prev_char() {
                        bwd.push(c as u32);
                        bpos.push(it.byte_position());
                        budget -= 1;
                        if budget == 0 {
                            break;
                        }
                    }
                    // the &str helpers need a &str (input preparation; if the iterator accepted bytes that are
                    // no &str, the empty answers logged here make TLC reject the event)
                    if let Ok(text) = std::str::from_utf8(p.bytes()) {
                        cps = zipora::string::utils::unicode_utils::extract_codepoints(text);
                        let x = UnicodeProcessor::new().analyze(text);
                        an = json!({"chars":x.char_count,"bytes":x.byte_count,"ascii":x.ascii_count,"latin1":x.latin_supplement,
                                    "ext":x.extended_latin,"other":x.other_unicode});
                    }
                    true
                }
                Err(_) => false,
            };
            json!({"s":bj(&s),"ok":v.is_some(),"n":v.unwrap_or(0),"iter":iter_ok,"fwd":fwd,"fpos":fpos,"bwd":bwd,"bpos":bpos,"cps":cps,"an":an})
        });
        match r {
            Ok(c) => cases.push(c),
            Err(m) => {
                panic_ev(t, "utf8", m);
            }
        }
        st.add("unicode:utf8", 6);
        st.singles("unicode:utf8", std::slice::from_ref(&s));
        if cases.len() >= 40 {
            t.ev(json!({"op":"utf8","cases":cases}));
            cases = vec![];
        }
    }
    if !cases.is_empty() {
        t.ev(json!({"op":"utf8","cases":cases}));
    }
}

// ---------------------------------------------------------------- numerals at machine-word boundaries

/// decimal digit strings: input construction only (no comparison is made here)
fn dec_double(d: &str) -> String {
    let mut out = Vec::with_capacity(d.len() + 1);
    let mut carry = 0u8;
    for c in d.bytes().rev() {
        let v = (c - b'0') * 2 + carry;
        out.push(b'0' + v % 10);
        carry = v / 10;
    }
    if carry > 0 {
        out.push(b'0' + carry);
    }
    out.reverse();
    String::from_utf8(out).unwrap()
}
fn dec_inc(d: &str) -> String {
    let mut b: Vec<u8> = d.bytes().collect();
    let mut i = b.len();
    loop {
        if i == 0 {
            b.insert(0, b'1');
            break;
        }
        i -= 1;
        if b[i] == b'9' {
            b[i] = b'0';
        } else {
            b[i] += 1;
            break;
        }
    }
    String::from_utf8(b).unwrap()
}
/// d - 1 for d >= 1
fn dec_dec(d: &str) -> String {
    let mut b: Vec<u8> = d.bytes().collect();
    let mut i = b.len();
    while i > 0 {
        i -= 1;
        if b[i] == b'0' {
            b[i] = b'9';
        } else {
            b[i] -= 1;
            break;
        }
    }
    let s = String::from_utf8(b).unwrap();
    let t = s.trim_start_matches('0');
    if t.is_empty() {
        "0".to_string()
    } else {
        t.to_string()
    }
}
fn pow2(k: usize) -> String {
    let mut s = "1".to_string();
    for _ in 0..k {
        s = dec_double(&s);
    }
    s
}
fn pow10(d: usize) -> String {
    format!("1{}", "0".repeat(d))
}
fn around(v: &str) -> Vec<String> {
    vec![dec_dec(v), v.to_string(), dec_inc(v)]
}
/// the spellings of one magnitude v: signs, leading zeros, an empty / zero / non-zero fraction with and
/// without trailing zeros
fn spellings(v: &str) -> Vec<String> {
    vec![
        v.to_string(),
        format!("+{v}"),
        format!("-{v}"),
        format!("00{v}"),
        format!("-00{v}"),
        format!("{v}.0"),
        format!("{v}.00"),
        format!("{v}."),
        format!("{v}.5"),
        format!("{v}.50"),
        format!("0{v}.500"),
        format!("{v}.05"),
        format!("-{v}.5"),
        format!("-{v}.50"),
    ]
}

/// Numerals at every machine-word boundary: 2^k - 1, 2^k, 2^k + 1 (k = 8 .. 128) and 10^d - 1, 10^d,
/// 10^d + 1 (d = 1 .. 40): all pairs of the plain values, square pools with their negatives and 0
/// (order laws on all triples), and per boundary the different spellings of value - 1, value, value + 1.
fn numeric_boundary_pools(thorough: bool) -> Vec<(String, Vec<String>)> {
    let ks = [8usize, 16, 31, 32, 53, 63, 64, 127, 128];
    let mut pools = vec![];
    let mut p2: Vec<String> = vec![];
    for k in ks {
        p2.extend(around(&pow2(k)));
    }
    let mut p10: Vec<String> = vec![];
    for d in 1..=40 {
        p10.extend(around(&pow10(d)));
    }
    let mut plain: Vec<String> = p2.iter().chain(p10.iter()).cloned().collect();
    plain.push("0".into());
    plain.sort();
    plain.dedup();
    pools.push(("bound_plain".to_string(), plain));
    // square pools: the values, 0 and the negatives
    let mut sq = vec!["0".to_string(), "-0".to_string()];
    for v in &p2 {
        sq.push(v.clone());
        sq.push(format!("-{v}"));
    }
    pools.push(("bound_pow2".to_string(), sq));
    for (name, lo, hi) in [("bound_p10a", 1usize, 10usize), ("bound_p10b", 11, 20), ("bound_p10c", 17, 24), ("bound_p10d", 25, 34), ("bound_p10e", 31, 40)] {
        let mut sq = vec!["0".to_string(), pow2(64), dec_inc(&pow2(64)), dec_dec(&pow2(64)), pow2(63)];
        for d in lo..=hi {
            for v in around(&pow10(d)) {
                sq.push(v.clone());
                if d % 2 == 0 {
                    sq.push(format!("-{v}"));
                }
            }
        }
        pools.push((name.to_string(), sq));
    }
    // spellings around each boundary
    let ds: Vec<usize> = if thorough { (1..=40).collect() } else { vec![1, 9, 10, 19, 20, 21, 39] };
    let mut groups: Vec<(String, String)> = ks.iter().map(|&k| (format!("spell_2p{k}"), pow2(k))).collect();
    groups.extend(ds.iter().map(|&d| (format!("spell_10p{d}"), pow10(d))));
    for (name, v) in groups {
        let mut pool = vec!["0".to_string(), "-0".to_string()];
        for x in around(&v) {
            pool.extend(spellings(&x));
        }
        pools.push((name, pool));
    }
    pools
}
