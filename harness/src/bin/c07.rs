//! C07 — live allocations from any pool never overlap and keep their contents.
//!
//! Runs the real zipora pools / allocators and logs every call as one NDJSON event; TLC judges
//! the events against spec/Allocator.tla (Trace_Allocator.tla).  No model of any pool lives
//! here: the harness projects (block ids, sizes, address mod alignment, order-compressed
//! addresses, the `intact` flag obtained by re-reading the pattern it wrote) and nothing else.
//!
//! process structure: the parent (modes drive | replay | witness) re-executes itself once per
//! subject (`--mode child --what drive|replay|witness --subject X`); the child runs the real
//! objects and appends raw events (real addresses) to a journal, flushed per event, so that a
//! crash of the code under test is data.  The parent turns each run's addresses into
//! order-preserving ranks (all interval end points of the run sorted and replaced by their
//! rank), appends a `crash` / `timeout` event when the child died, and writes the traces.
use serde_json::{json, Value};
use std::any::Any;
use std::fs::File;
use std::io::{BufWriter, Write};
use std::path::{Path, PathBuf};
use std::ptr::NonNull;
use std::sync::{Arc, Mutex};
use zipora::memory::bump::BumpVec;
use zipora::memory::cache::CacheAlignedVec;
use zipora::memory::cache_layout::{AccessPattern, CacheLayoutConfig, CacheOptimizedAllocator};
use zipora::memory::fixed_capacity_pool::{FixedCapacityMemoryPool, FixedCapacityPoolConfig};
use zipora::memory::{
    AdaptiveFiveLevelPool, BumpAllocator, BumpArena, ConcurrencyLevel, FiveLevelPoolConfig, FiveLevelPoolHandle, FixedCapacityPool, HugePage,
    HugePageAllocator, LockFreeAllocation,
    LockFreeMemoryPool, LockFreePool, LockFreePoolConfig, MemOffset, MemoryMappedAllocator, MemoryPool, MutexBasedPool,
    NoLockingPool, PoolConfig, PooledBuffer, PooledVec, SecureMemoryPool, SecurePoolConfig, ThreadLocalMemoryPool, ThreadLocalPool,
    ThreadLocalPoolConfig, TieredConfig, TieredMemoryAllocator,
};
use zv::*;

/// sizes are logged as plain integers; anything larger is logged as this value (TLC integers are 32 bit, sums must fit)
const I32MAX: u64 = 1 << 30;

// ---------------------------------------------------------------- journal (child side)

static JOURNAL: Mutex<Option<BufWriter<File>>> = Mutex::new(None);

fn journal_open(p: &Path) {
    if let Some(d) = p.parent() {
        let _ = std::fs::create_dir_all(d);
    }
    *JOURNAL.lock().unwrap() = Some(BufWriter::new(File::create(p).expect("journal")));
}
/// one raw event; flushed immediately: after a crash the parent still sees everything before it
fn jev(v: &Value) {
    if let Some(w) = JOURNAL.lock().unwrap().as_mut() {
        let _ = serde_json::to_writer(&mut *w, v);
        let _ = w.write_all(b"\n");
        let _ = w.flush();
    }
}

// ---------------------------------------------------------------- blocks and the pattern

/// what a pool handed out.  `addr` is the address (or the MemOffset of the offset-returning
/// pools), `len` the bytes the caller may use, `align` the alignment requested / configured.
struct Blk {
    addr: u64,
    len: u64,
    align: u64,
    mem: *mut u8,             // null: content not accessible (offset pools)
    reg: Option<(u64, u64)>,  // the arena / chunk the pool states for this block
    h: Box<dyn Any>,          // the pool's own handle (RAII guard, pointer, offset)
    after_clear: bool,        // harness bookkeeping: clear() was called while this block was live
    req: usize,               // harness bookkeeping: the request that produced the block
}

fn blk(addr: u64, len: usize, align: usize, mem: *mut u8, h: Box<dyn Any>) -> Blk {
    Blk { addr, len: len as u64, align: align.max(1) as u64, mem, reg: None, h, after_clear: false, req: 0 }
}

fn pat(id: u32, j: usize) -> u8 {
    (id.wrapping_mul(151).wrapping_add(j as u32 * 7).wrapping_add((j >> 8) as u32 * 13).wrapping_add(29) & 0xff) as u8
}
/// positions of a block that are written / re-read (all of it up to 16 KiB)
fn positions(len: usize, mut f: impl FnMut(usize)) {
    if len <= 16384 {
        for j in 0..len {
            f(j)
        }
    } else {
        for j in 0..4096 {
            f(j)
        }
        let mut j = 4096;
        while j < len - 4096 {
            f(j);
            j += 509;
        }
        for j in len - 4096..len {
            f(j)
        }
    }
}
fn raw_fill(b: &Blk, id: u32) {
    if b.mem.is_null() {
        return;
    }
    let p = b.mem;
    positions(b.len as usize, |j| unsafe { p.add(j).write_volatile(pat(id, j)) });
}
fn raw_check(b: &Blk, id: u32) -> Option<bool> {
    if b.mem.is_null() {
        return None;
    }
    let p = b.mem;
    let mut ok = true;
    positions(b.len as usize, |j| {
        if unsafe { p.add(j).read_volatile() } != pat(id, j) {
            ok = false
        }
    });
    Some(ok)
}

// ---------------------------------------------------------------- exclusions (known findings that reproduced)

/// trigger regions the driver leaves out for a subject: the ids of the known findings whose
/// witness TLC has just judged as reproducing (decided by the orchestration, not here)
#[derive(Clone, Default)]
struct Excl(Vec<String>);
impl Excl {
    fn has(&self, n: u32) -> bool {
        let id = format!("C07-KF{n}");
        self.0.iter().any(|x| *x == id)
    }
}

// ---------------------------------------------------------------- the uniform view of a pool

trait Pool {
    /// allocate `req` bytes aligned to `align`; None = refused
    fn alloc(&mut self, req: usize, align: usize) -> Option<Blk>;
    /// give one block back; None = the pool has no per-block free
    fn free(&mut self, _b: Blk) -> Option<bool> {
        None
    }
    fn has_free(&self) -> bool {
        true
    }
    /// bulk entry point (allocate_bulk_*): None = the pool has none; Some(None) = refused
    fn alloc_bulk(&mut self, _reqs: &[usize]) -> Option<Option<Vec<Blk>>> {
        None
    }
    /// free the most recently freed block a second time (pools that take raw pointers); Some(accepted)
    fn free_again(&mut self) -> Option<bool> {
        None
    }
    /// the request the pool actually serves for a wanted size (fixed-chunk pools ignore the size)
    fn req(&self, want: usize) -> usize {
        want
    }
    /// capacity in bytes the pool states (None: grows on demand)
    fn cap(&self) -> Option<u64> {
        None
    }
    /// the pool owns ONE arena of cap() bytes out of which every block is carved
    fn arena(&self) -> bool {
        false
    }
    /// the pool's own size-class table: input generation only
    fn classes(&self) -> Vec<usize>;
    fn min(&self) -> usize {
        1
    }
    fn max(&self) -> usize;
    /// alignments a caller may request (pools with a configured alignment: that one)
    fn aligns(&self) -> Vec<usize> {
        vec![8]
    }
    /// restriction of a size to the part of the input space outside the excluded trigger regions
    fn snap(&self, size: usize) -> usize {
        size
    }
    /// bytes a run may request in total (Some: a known finding's trigger region starts beyond)
    fn budget(&self) -> Option<usize> {
        None
    }
    fn max_live(&self) -> usize {
        16
    }
    fn fill(&mut self, b: &mut Blk, id: u32) {
        raw_fill(b, id)
    }
    fn check(&mut self, b: &Blk, id: u32) -> Option<bool> {
        raw_check(b, id)
    }
    /// free of a pointer the pool never issued, for the pools that validate pointers
    fn foreign_free(&mut self) -> Option<bool> {
        None
    }
    /// a call that must not affect live blocks (stats, validate, clear of cached chunks);
    /// returns its name, and whether it was clear()
    fn maintenance(&mut self, _k: u64, _nlive: usize) -> Option<(&'static str, bool)> {
        None
    }
    /// en-bloc release of everything (bump reset); true = done
    fn reset_all(&mut self) -> bool {
        false
    }
    /// arena scopes: begin / end (end releases everything allocated since the matching begin)
    fn scope(&mut self, _begin: bool) -> bool {
        false
    }
    /// pool instances are cheap to create (a fresh one per replayed history)
    fn cheap(&self) -> bool {
        true
    }
    /// "many generations" regime: block size with which the pool is driven through many arenas / chunks /
    /// regions, and the size of the system allocations interleaved with it (the arena / chunk size)
    fn gen_sizes(&self) -> (usize, usize) {
        let cl = self.classes();
        let s = cl[cl.len() / 2].min(self.max()).max(self.min());
        (s, (s * 4).min(1 << 20))
    }
    /// the request size matters (false: fixed-chunk pools; histories that differ only in sizes coincide)
    fn sized(&self) -> bool {
        true
    }
    /// quick tier: execute every n-th generated history only (subjects whose blocks are expensive to map and fill)
    fn stride(&self) -> usize {
        1
    }
}

// ---------------------------------------------------------------- subjects: adapters (thin call-throughs)

fn round_to(classes: &[usize], size: usize) -> usize {
    classes.iter().copied().find(|&c| c >= size).unwrap_or(size)
}

// ---- SecureMemoryPool (fixed chunk, RAII guard)
struct Secure {
    pool: Arc<SecureMemoryPool>,
    chunk: usize,
    align: usize,
    excl: Excl,
    n: u64,
}
impl Secure {
    fn wrap(&self, mut g: zipora::memory::SecurePooledPtr) -> Blk {
        // the guard's own accessors: as_ptr / as_non_null / as_mut_slice name the same memory
        let p = if self.n % 2 == 0 { g.as_ptr() } else { g.as_non_null().map_or(std::ptr::null_mut(), |q| q.as_ptr()) };
        let q = g.as_mut_slice().as_mut_ptr();
        let len = g.size();
        blk(p as u64, len, self.align, q, Box::new(g))
    }
}
impl Pool for Secure {
    fn gen_sizes(&self) -> (usize, usize) {
        (self.chunk, (self.chunk + 64).min(1 << 20))
    }
    fn sized(&self) -> bool {
        false
    }
    fn alloc(&mut self, _req: usize, _align: usize) -> Option<Blk> {
        self.n += 1;
        let g = if self.n % 3 == 0 { self.pool.allocate_with_hint(true) } else { self.pool.allocate() }.ok()?;
        Some(self.wrap(g))
    }
    fn alloc_bulk(&mut self, reqs: &[usize]) -> Option<Option<Vec<Blk>>> {
        let sizes = vec![self.chunk; reqs.len()];
        Some(self.pool.allocate_bulk_with_prefetch(&sizes).ok().map(|v| v.into_iter().map(|g| self.wrap(g)).collect()))
    }
    fn free(&mut self, b: Blk) -> Option<bool> {
        // the guard's Drop swallows the pool's verdict; the pool's own counters are the observable result
        let s0 = self.pool.stats();
        drop(b.h);
        let s1 = self.pool.stats();
        Some(s1.double_free_detected == s0.double_free_detected && s1.corruption_detected == s0.corruption_detected)
    }
    fn req(&self, _want: usize) -> usize {
        self.chunk
    }
    fn classes(&self) -> Vec<usize> {
        vec![self.chunk]
    }
    fn max(&self) -> usize {
        self.chunk
    }
    fn aligns(&self) -> Vec<usize> {
        vec![self.align]
    }
    fn maintenance(&mut self, k: u64, nlive: usize) -> Option<(&'static str, bool)> {
        match k % 3 {
            0 => {
                let _ = (self.pool.stats(), self.pool.config().chunk_size, zipora::memory::get_global_secure_pool_stats(), zipora::memory::size_to_class(self.chunk));
                let _ = self.pool.verify_zeroed_simd(&[0u8; 96]);
                Some(("stats", false))
            }
            1 => {
                let _ = self.pool.validate();
                Some(("validate", false))
            }
            _ => {
                if self.excl.has(8) && nlive > 0 {
                    return None;
                }
                let _ = self.pool.clear();
                Some(("clear", true))
            }
        }
    }
}

// ---- LockFreeMemoryPool (size classes, bump pointer, validates the pointer range on free)
const LF_BINS: &[usize] = &[
    8, 16, 24, 32, 40, 48, 56, 64, 72, 80, 88, 96, 104, 112, 120, 128, 144, 160, 176, 192, 208, 224, 240, 256, 288, 320, 352, 384, 416,
    448, 480, 512, 576, 640, 704, 768, 832, 896, 960, 1024, 1152, 1280, 1408, 1536, 1664, 1792, 1920, 2048, 2304, 2560, 2816, 3072,
    3328, 3584, 3840, 4096, 4608, 5120, 5632, 6144, 6656, 7168, 7680, 8192,
];
struct LockFree {
    pool: Arc<LockFreeMemoryPool>,
    k: u64,
    mem_size: usize,
    excl: Excl,
    foreign: Box<[u64; 16]>,
    last: Option<(usize, usize)>,
}
impl Pool for LockFree {
    fn arena(&self) -> bool {
        true
    }
    fn alloc(&mut self, req: usize, _align: usize) -> Option<Blk> {
        let p = self.pool.allocate(req).ok()?;
        Some(blk(p.as_ptr() as u64, req, 8, p.as_ptr(), Box::new((p.as_ptr() as usize, req))))
    }
    fn free(&mut self, b: Blk) -> Option<bool> {
        let (p, size) = *b.h.downcast_ref::<(usize, usize)>()?;
        self.last = Some((p, size));
        let q = NonNull::new(p as *mut u8)?;
        // every way of giving a block back: deallocate, deallocate_with_zero, the RAII wrapper
        self.k += 1;
        Some(match self.k % 3 {
            0 => self.pool.deallocate(q, size).is_ok(),
            1 => self.pool.deallocate_with_zero(q, size).is_ok(),
            _ => {
                drop(LockFreeAllocation::new(q, size, Arc::clone(&self.pool)));
                true
            }
        })
    }
    fn alloc_bulk(&mut self, reqs: &[usize]) -> Option<Option<Vec<Blk>>> {
        Some(self.pool.allocate_bulk_simd(reqs).ok().map(|v| {
            v.into_iter().zip(reqs).map(|(p, &req)| blk(p.as_ptr() as u64, req, 8, p.as_ptr(), Box::new((p.as_ptr() as usize, req)))).collect()
        }))
    }
    fn free_again(&mut self) -> Option<bool> {
        let (p, size) = self.last?;
        Some(self.pool.deallocate(NonNull::new(p as *mut u8)?, size).is_ok())
    }
    fn cap(&self) -> Option<u64> {
        Some(self.mem_size as u64)
    }
    fn classes(&self) -> Vec<usize> {
        LF_BINS.to_vec()
    }
    fn max(&self) -> usize {
        8192
    }
    fn snap(&self, size: usize) -> usize {
        if self.excl.has(1) && size <= 8192 {
            round_to(LF_BINS, size)
        } else {
            size
        }
    }
    fn foreign_free(&mut self) -> Option<bool> {
        let p = NonNull::new(self.foreign.as_mut_ptr() as *mut u8)?;
        Some(self.pool.deallocate(p, 64).is_ok())
    }
    fn maintenance(&mut self, _k: u64, _n: usize) -> Option<(&'static str, bool)> {
        let _ = self.pool.stats().map(|s| (s.contention_ratio(), s.allocation_rate()));
        Some(("stats", false))
    }
}

// ---- ThreadLocalMemoryPool (per-thread cache: size-class free lists + hot area; RAII guard)
const TLS_CLASSES: &[usize] = &[16, 32, 48, 64, 96, 128, 192, 256, 384, 512, 768, 1024, 1536, 2048, 3072, 4096];
struct TlPool {
    pool: Arc<ThreadLocalMemoryPool>,
    arena: usize,
    excl: Excl,
}
impl Pool for TlPool {
    fn gen_sizes(&self) -> (usize, usize) {
        // the largest block a hot area serves (arena / 4): four blocks per arena
        ((self.arena / 4).min(800 * 1024), self.arena)
    }
    fn stride(&self) -> usize {
        3
    }
    fn alloc(&mut self, req: usize, _align: usize) -> Option<Blk> {
        let g = self.pool.allocate(req).ok()?;
        let p = g.as_ptr();
        Some(blk(p as u64, g.size(), 8, p, Box::new(g)))
    }
    fn free(&mut self, b: Blk) -> Option<bool> {
        drop(b.h); // Drop reports nothing
        Some(true)
    }
    fn classes(&self) -> Vec<usize> {
        TLS_CLASSES.to_vec()
    }
    fn max(&self) -> usize {
        4096
    }
    fn snap(&self, size: usize) -> usize {
        let mut s = size;
        if self.excl.has(3) && s <= 4096 {
            s = round_to(TLS_CLASSES, s);
        }
        if self.excl.has(5) {
            s = s.min(self.arena / 4);
        }
        s
    }
    fn budget(&self) -> Option<usize> {
        if self.excl.has(4) {
            Some(self.arena - 8192)
        } else {
            None
        }
    }
    fn maintenance(&mut self, _k: u64, _n: usize) -> Option<(&'static str, bool)> {
        let _ = (self.pool.memory_usage(), self.pool.stats().map(|s| (s.hit_ratio(), s.locality_score())));
        if _n == 0 && _k % 4 == 0 {
            // documented as cleanup: only without outstanding blocks
            self.pool.clear_caches();
            return Some(("clear_caches", false));
        }
        Some(("stats", false))
    }
}

// ---- FixedCapacityMemoryPool (size classes over equal blocks of one arena; RAII guard)
struct FixedCap {
    pool: Box<FixedCapacityMemoryPool>,
    align: usize,
    maxb: usize,
    classes: Vec<usize>,
    cheap: bool,
}
impl Pool for FixedCap {
    fn arena(&self) -> bool {
        true
    }
    fn stride(&self) -> usize {
        if self.maxb > 8192 {
            16
        } else {
            1
        }
    }
    fn alloc(&mut self, req: usize, _align: usize) -> Option<Blk> {
        let g = self.pool.allocate(req).ok()?;
        let p = g.as_ptr();
        Some(blk(p as u64, g.size(), self.align, p, Box::new(g)))
    }
    fn free(&mut self, b: Blk) -> Option<bool> {
        drop(b.h);
        Some(true)
    }
    fn cap(&self) -> Option<u64> {
        Some(self.pool.total_capacity() as u64)
    }
    fn classes(&self) -> Vec<usize> {
        self.classes.clone()
    }
    fn max(&self) -> usize {
        self.maxb
    }
    fn aligns(&self) -> Vec<usize> {
        vec![self.align]
    }
    fn maintenance(&mut self, _k: u64, _n: usize) -> Option<(&'static str, bool)> {
        let _ = (self.pool.available_capacity(), self.pool.has_capacity(1), self.pool.stats().map(|s| (s.success_rate(), s.utilization_percent())));
        Some(("stats", false))
    }
    fn cheap(&self) -> bool {
        self.cheap
    }
}
/// the pool's size classes, read off its public API (the guard reports the class size)
fn fixedcap_classes(pool: &FixedCapacityMemoryPool, maxb: usize) -> Vec<usize> {
    let mut v = vec![];
    let mut s = 1usize;
    while s <= maxb && v.len() < 64 {
        match pool.allocate(s) {
            Ok(g) => {
                let c = g.size();
                if c < s {
                    break;
                }
                v.push(c);
                s = c + 1;
            }
            Err(_) => break,
        }
    }
    v
}

// ---- MemoryPool (fixed chunk, raw pointers)
struct MemPool {
    pool: Arc<MemoryPool>,
    chunk: usize,
    align: usize,
    last: Option<usize>,
}
impl Pool for MemPool {
    fn gen_sizes(&self) -> (usize, usize) {
        (self.chunk, self.chunk.min(1 << 20))
    }
    fn sized(&self) -> bool {
        false
    }
    fn alloc(&mut self, _req: usize, _align: usize) -> Option<Blk> {
        let p = self.pool.allocate().ok()?;
        let mut b = blk(p.as_ptr() as u64, self.chunk, self.align, p.as_ptr(), Box::new(p.as_ptr() as usize));
        b.reg = Some((b.addr, b.addr + self.chunk as u64));
        Some(b)
    }
    fn free(&mut self, b: Blk) -> Option<bool> {
        let p = *b.h.downcast_ref::<usize>()?;
        self.last = Some(p);
        Some(self.pool.deallocate(NonNull::new(p as *mut u8)?).is_ok())
    }
    fn free_again(&mut self) -> Option<bool> {
        Some(self.pool.deallocate(NonNull::new(self.last? as *mut u8)?).is_ok())
    }
    fn req(&self, _want: usize) -> usize {
        self.chunk
    }
    fn classes(&self) -> Vec<usize> {
        vec![self.chunk]
    }
    fn max(&self) -> usize {
        self.chunk
    }
    fn aligns(&self) -> Vec<usize> {
        vec![self.align]
    }
    fn maintenance(&mut self, k: u64, _n: usize) -> Option<(&'static str, bool)> {
        if k % 2 == 0 {
            let _ = (self.pool.stats(), self.pool.config().chunk_size, zipora::memory::pool::get_global_pool_stats(), zipora::memory::pool::init_global_pools(self.chunk, 1 << 20));
            Some(("stats", false))
        } else {
            let _ = self.pool.clear(); // drops cached free chunks only
            Some(("clear", false))
        }
    }
}

// ---- PooledVec<T> over the global pools: the block is the vector's buffer, written through push
struct PVecU8;
impl Pool for PVecU8 {
    fn sized(&self) -> bool {
        false
    }
    fn alloc(&mut self, _req: usize, _align: usize) -> Option<Blk> {
        let v = PooledVec::<u8>::new().ok()?;
        let p = v.as_slice().as_ptr() as u64;
        let cap = v.capacity();
        let mut b = blk(p, cap, 8, std::ptr::null_mut(), Box::new(v));
        b.reg = Some((p, p + PoolConfig::small().chunk_size as u64));
        Some(b)
    }
    fn free(&mut self, b: Blk) -> Option<bool> {
        drop(b.h);
        Some(true)
    }
    fn req(&self, _want: usize) -> usize {
        PoolConfig::small().chunk_size
    }
    fn classes(&self) -> Vec<usize> {
        vec![PoolConfig::small().chunk_size]
    }
    fn max(&self) -> usize {
        PoolConfig::small().chunk_size
    }
    fn fill(&mut self, b: &mut Blk, id: u32) {
        if let Some(v) = b.h.downcast_mut::<PooledVec<u8>>() {
            let mut j = v.len();
            while v.push(pat(id, j)).is_ok() {
                j += 1;
            }
        }
    }
    fn check(&mut self, b: &Blk, id: u32) -> Option<bool> {
        let v = b.h.downcast_ref::<PooledVec<u8>>()?;
        Some(v.len() == b.len as usize && v.as_slice().iter().enumerate().all(|(j, &x)| x == pat(id, j)))
    }
}
const PV_ELEM: usize = 2000;
struct PVecBig;
impl Pool for PVecBig {
    fn sized(&self) -> bool {
        false
    }
    fn alloc(&mut self, _req: usize, _align: usize) -> Option<Blk> {
        let v = PooledVec::<[u8; PV_ELEM]>::new().ok()?;
        let p = v.as_slice().as_ptr() as u64;
        let cap = v.capacity() * PV_ELEM;
        let mut b = blk(p, cap, 16, std::ptr::null_mut(), Box::new(v));
        b.reg = Some((p, p + PoolConfig::medium().chunk_size as u64));
        Some(b)
    }
    fn free(&mut self, b: Blk) -> Option<bool> {
        drop(b.h);
        Some(true)
    }
    fn req(&self, _want: usize) -> usize {
        (PoolConfig::medium().chunk_size / PV_ELEM) * PV_ELEM
    }
    fn classes(&self) -> Vec<usize> {
        vec![self.req(0)]
    }
    fn max(&self) -> usize {
        self.req(0)
    }
    fn aligns(&self) -> Vec<usize> {
        vec![16]
    }
    fn fill(&mut self, b: &mut Blk, id: u32) {
        if let Some(v) = b.h.downcast_mut::<PooledVec<[u8; PV_ELEM]>>() {
            loop {
                let base = v.len() * PV_ELEM;
                let mut e = [0u8; PV_ELEM];
                for (j, x) in e.iter_mut().enumerate() {
                    *x = pat(id, base + j);
                }
                if v.push(e).is_err() {
                    break;
                }
            }
        }
    }
    fn check(&mut self, b: &Blk, id: u32) -> Option<bool> {
        let v = b.h.downcast_ref::<PooledVec<[u8; PV_ELEM]>>()?;
        let mut ok = v.len() * PV_ELEM == b.len as usize;
        for (i, e) in v.as_slice().iter().enumerate() {
            for (j, &x) in e.iter().enumerate() {
                ok &= x == pat(id, i * PV_ELEM + j);
            }
        }
        Some(ok)
    }
}

// ---- PooledBuffer over the global pools
struct PBuf {
    excl: Excl,
}
fn preset_chunk(size: usize) -> usize {
    // the chunk the global pools state for a buffer of `size` bytes (their public presets)
    let presets = [PoolConfig::small().chunk_size, PoolConfig::medium().chunk_size, PoolConfig::large().chunk_size];
    presets.iter().copied().find(|&c| c >= size).unwrap_or(presets[2])
}
impl Pool for PBuf {
    fn stride(&self) -> usize {
        2
    }
    fn alloc(&mut self, req: usize, _align: usize) -> Option<Blk> {
        let mut v = PooledBuffer::new(req).ok()?;
        let p = v.as_mut_slice().as_mut_ptr();
        let len = v.len();
        let mut b = blk(p as u64, len, 8, p, Box::new(v));
        b.reg = Some((p as u64, p as u64 + preset_chunk(req) as u64));
        Some(b)
    }
    fn free(&mut self, b: Blk) -> Option<bool> {
        drop(b.h);
        Some(true)
    }
    fn classes(&self) -> Vec<usize> {
        vec![PoolConfig::small().chunk_size, PoolConfig::medium().chunk_size, PoolConfig::large().chunk_size]
    }
    fn max(&self) -> usize {
        PoolConfig::large().chunk_size
    }
    fn snap(&self, size: usize) -> usize {
        if self.excl.has(12) {
            size.min(PoolConfig::large().chunk_size)
        } else {
            size
        }
    }
    fn max_live(&self) -> usize {
        8
    }
}

// ---- TieredMemoryAllocator
struct Tiered {
    a: TieredMemoryAllocator,
    cfg: TieredConfig,
    global: bool, // the process-wide allocator behind tiered_allocate / tiered_deallocate
}
impl Pool for Tiered {
    fn gen_sizes(&self) -> (usize, usize) {
        (20000, 20480) // the memory-mapped tier: one region per block
    }
    fn stride(&self) -> usize {
        4
    }
    fn alloc(&mut self, req: usize, _align: usize) -> Option<Blk> {
        let mut t = if self.global { zipora::memory::tiered_allocate(req) } else { self.a.allocate(req) }.ok()?;
        let p = t.as_mut_slice().as_mut_ptr();
        let len = t.size();
        // alignment the tier's pool is configured with (small pool 8, medium pools 16); none stated beyond
        let al = if req <= 1024 && self.cfg.enable_small_pools {
            8
        } else if req <= 16 * 1024 && self.cfg.enable_medium_pools {
            16
        } else {
            1
        };
        Some(blk(p as u64, len, al, p, Box::new(t)))
    }
    fn free(&mut self, b: Blk) -> Option<bool> {
        let t = b.h.downcast::<zipora::memory::TieredAllocation>().ok()?;
        Some(if self.global { zipora::memory::tiered_deallocate(*t) } else { self.a.deallocate(*t) }.is_ok())
    }
    fn classes(&self) -> Vec<usize> {
        // pool classes, the mmap threshold (16 KiB) and the hugepage threshold (2 MiB)
        vec![1024, 2048, 4096, 8192, 16384, 2 << 20]
    }
    fn max(&self) -> usize {
        16384
    }
    fn max_live(&self) -> usize {
        12
    }
    fn maintenance(&mut self, k: u64, _n: usize) -> Option<(&'static str, bool)> {
        if k % 2 == 0 {
            let _ = (self.a.stats(), self.a.get_allocation_pattern().ok(), zipora::memory::get_tiered_stats());
            Some(("stats", false))
        } else {
            let _ = self.a.optimize_for_pattern();
            Some(("optimize", false))
        }
    }
}

// ---- BumpAllocator / BumpArena + BumpScope
struct Bump {
    a: Box<BumpAllocator>,
    slice: bool,
    vec: bool, // blocks are the buffers of BumpVec<u8>::new_in, written through push
}
impl Pool for Bump {
    fn arena(&self) -> bool {
        true
    }
    fn alloc(&mut self, req: usize, align: usize) -> Option<Blk> {
        if self.vec {
            // the vector borrows the boxed allocator, which outlives every block of the run
            let a: &'static BumpAllocator = unsafe { &*(&*self.a as *const BumpAllocator) };
            let v = BumpVec::<u8>::new_in(a, req).ok()?;
            let p = v.as_slice().as_ptr() as u64;
            Some(blk(p, v.capacity(), 1, std::ptr::null_mut(), Box::new(v)))
        } else if self.slice {
            let n = (req + 7) / 8;
            let p = self.a.alloc_slice::<u64>(n).ok()?;
            let q = p.as_ptr() as *mut u8;
            Some(blk(q as u64, n * 8, 8, q, Box::new(())))
        } else {
            let p = self.a.alloc_bytes(req, align).ok()?;
            Some(blk(p.as_ptr() as u64, req, align, p.as_ptr(), Box::new(())))
        }
    }
    fn cap(&self) -> Option<u64> {
        Some(self.a.capacity() as u64)
    }
    fn classes(&self) -> Vec<usize> {
        vec![8, 24, 64, 200, 1024]
    }
    fn max(&self) -> usize {
        self.a.capacity()
    }
    fn aligns(&self) -> Vec<usize> {
        if self.slice || self.vec {
            vec![8]
        } else {
            vec![1, 2, 4, 8, 16, 32, 64, 128, 256, 4096, 3, 24]
        }
    }
    fn has_free(&self) -> bool {
        false
    }
    fn reset_all(&mut self) -> bool {
        unsafe { self.a.reset() };
        true
    }
    fn fill(&mut self, b: &mut Blk, id: u32) {
        match b.h.downcast_mut::<BumpVec<'static, u8>>() {
            Some(v) => {
                let mut j = v.len();
                while v.push(pat(id, j)).is_ok() {
                    j += 1;
                }
            }
            None => raw_fill(b, id),
        }
    }
    fn check(&mut self, b: &Blk, id: u32) -> Option<bool> {
        match b.h.downcast_ref::<BumpVec<'static, u8>>() {
            Some(v) => Some(v.len() == b.len as usize && v.as_slice().iter().enumerate().all(|(j, &x)| x == pat(id, j))),
            None => raw_check(b, id),
        }
    }
    fn maintenance(&mut self, _k: u64, _n: usize) -> Option<(&'static str, bool)> {
        let _ = (self.a.allocated_bytes(), self.a.remaining_bytes(), self.a.can_allocate(8, 8));
        Some(("stats", false))
    }
}
struct Arena {
    scopes: Vec<zipora::memory::bump::BumpScope<'static>>,
    a: Box<BumpArena>,
}
impl Drop for Arena {
    fn drop(&mut self) {
        while self.scopes.pop().is_some() {}
    }
}
impl Pool for Arena {
    fn arena(&self) -> bool {
        true
    }
    fn alloc(&mut self, req: usize, align: usize) -> Option<Blk> {
        let p = match self.scopes.last() {
            Some(s) => s.alloc_bytes(req, align).ok()?,
            None => self.a.alloc_bytes(req, align).ok()?,
        };
        Some(blk(p.as_ptr() as u64, req, align, p.as_ptr(), Box::new(())))
    }
    fn cap(&self) -> Option<u64> {
        Some(self.a.stats().capacity as u64)
    }
    fn classes(&self) -> Vec<usize> {
        vec![8, 24, 64, 200, 1024]
    }
    fn max(&self) -> usize {
        self.a.stats().capacity
    }
    fn aligns(&self) -> Vec<usize> {
        vec![1, 2, 4, 8, 16, 32, 64, 128, 256, 4096, 3, 24]
    }
    fn has_free(&self) -> bool {
        false
    }
    fn scope(&mut self, begin: bool) -> bool {
        if begin {
            if self.scopes.len() >= 3 {
                return false;
            }
            // the scope borrows the boxed arena, which outlives it (see Drop)
            let s: zipora::memory::bump::BumpScope<'static> = unsafe { std::mem::transmute(self.a.scope()) };
            self.scopes.push(s);
            true
        } else {
            self.scopes.pop().is_some()
        }
    }
    fn maintenance(&mut self, _k: u64, _n: usize) -> Option<(&'static str, bool)> {
        let _ = (self.a.stats().utilization(), self.a.stats().is_nearly_full());
        Some(("stats", false))
    }
}

// ---- the five-level family: offsets, no content access
enum FL {
    NoLock(NoLockingPool),
    Mutex(MutexBasedPool),
    LockFree(LockFreePool),
    TLocal(ThreadLocalPool),
    Fixed(FixedCapacityPool),
    Adaptive(AdaptiveFiveLevelPool),
    Handle(AdaptiveFiveLevelPool, FiveLevelPoolHandle), // get_handle(): the cloneable twin of alloc / free
}
struct Five {
    p: FL,
    cfg: FiveLevelPoolConfig,
    excl: Excl,
}
fn off_u32(o: MemOffset) -> u32 {
    // MemOffset is #[repr(transparent)] over u32
    unsafe { std::mem::transmute::<MemOffset, u32>(o) }
}
impl Five {
    fn total(&self) -> usize {
        match &self.p {
            FL::NoLock(p) => p.stats().total_capacity,
            FL::Mutex(p) => p.stats().total_capacity,
            FL::LockFree(p) => p.stats().total_capacity,
            FL::TLocal(p) => p.stats().total_capacity,
            FL::Fixed(p) => p.stats().total_capacity,
            FL::Adaptive(p) => p.stats().total_capacity,
            FL::Handle(_, h) => h.stats().total_capacity,
        }
    }
    fn is_tlocal(&self) -> bool {
        match &self.p {
            FL::TLocal(_) => true,
            FL::Adaptive(p) | FL::Handle(p, _) => p.current_level() == ConcurrencyLevel::ThreadLocal,
            _ => false,
        }
    }
}
impl Pool for Five {
    fn stride(&self) -> usize {
        if self.is_tlocal() {
            4
        } else {
            1
        }
    }
    fn alloc(&mut self, req: usize, _align: usize) -> Option<Blk> {
        let o = match &mut self.p {
            FL::NoLock(p) => p.alloc(req),
            FL::Mutex(p) => p.alloc(req),
            FL::LockFree(p) => p.alloc(req),
            FL::TLocal(p) => p.alloc(req),
            FL::Fixed(p) => p.alloc(req),
            FL::Adaptive(p) => p.alloc(req),
            FL::Handle(_, h) => h.alloc(req),
        }
        .ok()?;
        let mut b = blk(off_u32(o) as u64, req, self.cfg.alignment, std::ptr::null_mut(), Box::new((o, req)));
        b.reg = Some((0, self.total() as u64));
        Some(b)
    }
    fn free(&mut self, b: Blk) -> Option<bool> {
        let (o, size) = *b.h.downcast_ref::<(MemOffset, usize)>()?;
        Some(
            match &mut self.p {
                FL::NoLock(p) => p.free(o, size),
                FL::Mutex(p) => p.free(o, size),
                FL::LockFree(p) => p.free(o, size),
                FL::TLocal(p) => p.free(o, size),
                FL::Fixed(p) => p.free(o, size),
                FL::Adaptive(p) => p.free(o, size),
                FL::Handle(_, h) => h.free(o, size),
            }
            .is_ok(),
        )
    }
    fn cap(&self) -> Option<u64> {
        Some(self.total() as u64)
    }
    fn classes(&self) -> Vec<usize> {
        let a = self.cfg.alignment;
        let mut v = vec![a, 2 * a, 3 * a, 4 * a, 8 * a];
        let mut s = 16 * a;
        while s < self.cfg.max_fast_block_size {
            v.push(s);
            s *= 4;
        }
        v.push(self.cfg.max_fast_block_size);
        v
    }
    fn max(&self) -> usize {
        self.cfg.max_fast_block_size
    }
    fn aligns(&self) -> Vec<usize> {
        vec![self.cfg.alignment]
    }
    fn snap(&self, size: usize) -> usize {
        if self.excl.has(11) && self.is_tlocal() {
            size.min(self.cfg.max_fast_block_size)
        } else {
            size
        }
    }
    fn budget(&self) -> Option<usize> {
        if self.excl.has(11) && self.is_tlocal() {
            Some(self.cfg.arena_size / 2)
        } else {
            None
        }
    }
    fn maintenance(&mut self, _k: u64, _n: usize) -> Option<(&'static str, bool)> {
        let _ = self.total();
        if let FL::NoLock(p) = &self.p {
            let _ = (p.stats().fragmentation_ratio(), p.stats().utilization());
        }
        if let FL::Fixed(p) = &self.p {
            let _ = (p.remaining_capacity(), p.is_at_capacity());
        }
        Some(("stats", false))
    }
}

// ---- MemoryMappedAllocator
struct Mmap {
    a: MemoryMappedAllocator,
    min: usize,
}
impl Pool for Mmap {
    fn gen_sizes(&self) -> (usize, usize) {
        (self.min + 100, self.min + 4096)
    }
    fn stride(&self) -> usize {
        10
    }
    fn alloc(&mut self, req: usize, _align: usize) -> Option<Blk> {
        let mut m = self.a.allocate(req).ok()?;
        let p = m.as_mut_ptr();
        let (len, actual) = (m.size(), m.actual_size());
        let mut b = blk(p as u64, len, 8, p, Box::new(m));
        b.reg = Some((p as u64, p as u64 + actual as u64));
        Some(b)
    }
    fn free(&mut self, b: Blk) -> Option<bool> {
        let m = b.h.downcast::<zipora::memory::MmapAllocation>().ok()?;
        Some(self.a.deallocate(*m).is_ok())
    }
    fn classes(&self) -> Vec<usize> {
        vec![self.min, self.min + 4096, 65536, 1 << 20]
    }
    fn min(&self) -> usize {
        self.min
    }
    fn max(&self) -> usize {
        2 << 20
    }
    fn max_live(&self) -> usize {
        10
    }
    fn maintenance(&mut self, k: u64, _n: usize) -> Option<(&'static str, bool)> {
        if k % 2 == 0 {
            let _ = (self.a.stats(), self.a.should_use_mmap(self.min));
            Some(("stats", false))
        } else {
            let _ = self.a.clear_cache(); // unmaps cached free regions only
            Some(("clear_cache", false))
        }
    }
}

// ---- HugePageAllocator (refuses everything when the machine has no hugepages)
struct Huge {
    a: HugePageAllocator,
}
impl Pool for Huge {
    fn stride(&self) -> usize {
        20
    }
    fn alloc(&mut self, req: usize, _align: usize) -> Option<Blk> {
        let _ = (self.a.should_use_hugepages(req), zipora::memory::hugepage::hugepages_available(), zipora::memory::hugepage::get_hugepage_count());
        let mut h = if req % 2 == 0 { self.a.allocate(req) } else { HugePage::new_2mb(req) }.ok()?;
        let p = h.as_mut_slice().as_mut_ptr();
        let len = h.size();
        let _ = h.page_size();
        Some(blk(p as u64, len, 4096, p, Box::new(h)))
    }
    fn free(&mut self, b: Blk) -> Option<bool> {
        drop(b.h);
        Some(true)
    }
    fn classes(&self) -> Vec<usize> {
        vec![2 << 20]
    }
    fn min(&self) -> usize {
        4096
    }
    fn max(&self) -> usize {
        4 << 20
    }
    fn max_live(&self) -> usize {
        3
    }
}

// ---- CacheAlignedVec<u8>: a cache-line aligned buffer from the NUMA helpers, written through push
struct CacheVec;
impl Pool for CacheVec {
    fn alloc(&mut self, req: usize, _align: usize) -> Option<Blk> {
        let mut v = if req % 2 == 0 { CacheAlignedVec::<u8>::with_capacity(req).ok()? } else { CacheAlignedVec::<u8>::with_numa_node(0) };
        v.reserve(req).ok()?;
        let _ = v.numa_node();
        let p = v.as_slice().as_ptr() as u64;
        if v.capacity() < req {
            return None;
        }
        Some(blk(p, req, 64, std::ptr::null_mut(), Box::new(v)))
    }
    fn free(&mut self, b: Blk) -> Option<bool> {
        drop(b.h);
        Some(true)
    }
    fn classes(&self) -> Vec<usize> {
        vec![64, 1024, 4096]
    }
    fn max(&self) -> usize {
        65536
    }
    fn aligns(&self) -> Vec<usize> {
        vec![64]
    }
    fn fill(&mut self, b: &mut Blk, id: u32) {
        if let Some(v) = b.h.downcast_mut::<CacheAlignedVec<u8>>() {
            // within the reserved capacity: the buffer must not move
            for j in v.len()..b.len as usize {
                if v.push(pat(id, j)).is_err() {
                    break;
                }
            }
            if let Some(x) = v.get_mut(0) {
                *x = pat(id, 0);
            }
        }
    }
    fn check(&mut self, b: &Blk, id: u32) -> Option<bool> {
        let v = b.h.downcast_ref::<CacheAlignedVec<u8>>()?;
        Some(v.len() == b.len as usize && v.as_slice().as_ptr() as u64 == b.addr && v.as_slice().iter().enumerate().all(|(j, &x)| x == pat(id, j)))
    }
}

// ---- CacheOptimizedAllocator / NUMA helpers (thin layers over the system allocator)
struct CacheOpt {
    a: CacheOptimizedAllocator,
}
impl Pool for CacheOpt {
    fn alloc(&mut self, req: usize, align: usize) -> Option<Blk> {
        let p = self.a.allocate_aligned(req, align, req % 2 == 0).ok()?;
        Some(blk(p.as_ptr() as u64, req, align, p.as_ptr(), Box::new((p.as_ptr() as usize, req, align))))
    }
    fn free(&mut self, b: Blk) -> Option<bool> {
        let (p, s, a) = *b.h.downcast_ref::<(usize, usize, usize)>()?;
        Some(self.a.deallocate_aligned(NonNull::new(p as *mut u8)?, s, a).is_ok())
    }
    fn classes(&self) -> Vec<usize> {
        vec![64, 128, 1024, 4096]
    }
    fn max(&self) -> usize {
        65536
    }
    fn aligns(&self) -> Vec<usize> {
        vec![1, 2, 8, 16, 32, 64, 128, 256, 4096, 65536, 96]
    }
}
struct Numa;
impl Pool for Numa {
    fn maintenance(&mut self, k: u64, _n: usize) -> Option<(&'static str, bool)> {
        use zipora::memory::cache::{clear_numa_pools, get_numa_stats, get_optimal_numa_node, init_numa_pools, set_current_numa_node};
        if k % 3 == 0 {
            // drops the chunks cached by numa_dealloc (free ones only)
            let _ = (clear_numa_pools(), init_numa_pools());
            Some(("clear_numa_pools", false))
        } else {
            let _ = (get_numa_stats(), get_optimal_numa_node(), set_current_numa_node(0));
            Some(("stats", false))
        }
    }
    fn alloc(&mut self, req: usize, align: usize) -> Option<Blk> {
        let p = zipora::memory::cache::numa_alloc_aligned(req, align, 0).ok()?;
        Some(blk(p.as_ptr() as u64, req, align, p.as_ptr(), Box::new((p.as_ptr() as usize, req, align))))
    }
    fn free(&mut self, b: Blk) -> Option<bool> {
        let (p, s, a) = *b.h.downcast_ref::<(usize, usize, usize)>()?;
        Some(zipora::memory::cache::numa_dealloc(NonNull::new(p as *mut u8)?, s, a, 0).is_ok())
    }
    fn classes(&self) -> Vec<usize> {
        vec![1023, 1024, 65536]
    }
    fn max(&self) -> usize {
        1 << 20
    }
    fn aligns(&self) -> Vec<usize> {
        vec![1, 2, 8, 16, 32, 64, 128, 256, 4096]
    }
    fn max_live(&self) -> usize {
        8
    }
}

// ---------------------------------------------------------------- subjects

const FL_KINDS: &[&str] = &["fl_nolock", "fl_mutex", "fl_lockfree", "fl_tlocal", "fl_fixed"];
const FL_CFGS: &[&str] = &["default", "performance_optimized", "memory_optimized", "realtime", "tiny"];

fn subjects() -> Vec<String> {
    let mut v: Vec<String> = [
        "secure:small", "secure:medium", "secure:large", "secure:small_c0", "secure:small_c1", "secure:small_a64", "secure:new256_a16",
        "secure:new64_a32_c1", "lockfree:default", "lockfree:compact", "lockfree:high_performance", "lockfree:tiny", "lockfree:small64k",
        "tlpool:default", "tlpool:compact", "tlpool:high_performance", "fixedcap:default", "fixedcap:small_objects",
        "fixedcap:medium_objects", "fixedcap:realtime", "fixedcap:secure", "fixedcap:tiny", "mempool:small", "mempool:medium",
        "mempool:large", "mempool:custom96_a32", "pooledvec:u8", "pooledvec:big", "pooledbuf:global", "tiered:default", "tiered:no_small",
        "tiered:no_medium", "tiered:no_mmap", "bump:4k", "bump:1m", "bump:slice", "arena:4k", "arena:64k", "mmap:default", "mmap:min4k",
        "hugepage:2mb", "cacheopt:optimal", "numa:node0", "secure:cfg_a", "secure:cfg_b", "secure:global_small", "secure:global_medium",
        "secure:global_large", "lockfree:zero_simd", "lockfree:zero_nosimd", "lockfree:zero_small64k", "fixedcap:lazy", "tiered:global",
        "bump:vec", "fl_handle:l2", "fl_handle:l3", "fl_handle:l4", "cachevec:u8", "secure:new40_a8",
        // the alignment dimension: 1, 2, 128, 256, 4096 and 64 KiB wherever a configuration carries an alignment
        "tlpool:tiny4k", "tlpool:tiny64k", "secure:a1", "secure:a2", "secure:a128", "secure:a256", "secure:a4096", "secure:a64k", "mempool:a1", "mempool:a2", "mempool:a128",
        "mempool:a256", "mempool:a4096", "mempool:a64k", "fixedcap:a1", "fixedcap:a2", "fixedcap:a128", "fixedcap:a256", "fixedcap:a4096",
        "fl_nolock:a4", "fl_nolock:a128", "fl_mutex:a64", "fl_lockfree:a256", "fl_fixed:a32",
    ]
    .iter()
    .map(|s| s.to_string())
    .collect();
    for k in FL_KINDS {
        for c in FL_CFGS {
            v.push(format!("{k}:{c}"));
        }
    }
    for c in ["auto_default", "auto_realtime", "l1", "l2", "l3", "l4", "l5"] {
        v.push(format!("fl_adaptive:{c}"));
    }
    v
}
fn fam_of(name: &str) -> &str {
    name.split(':').next().unwrap_or(name)
}
fn variant_of(name: &str) -> &str {
    name.split(':').nth(1).unwrap_or("")
}
/// subjects with per-thread caches in `static` thread-locals: every run gets a fresh thread
fn needs_thread(name: &str) -> bool {
    matches!(fam_of(name), "tlpool" | "fl_tlocal" | "fl_adaptive" | "fl_handle" | "tiered")
}

fn fl_config(var: &str) -> Option<FiveLevelPoolConfig> {
    Some(match var {
        "default" => FiveLevelPoolConfig::default(),
        "performance_optimized" => FiveLevelPoolConfig::performance_optimized(),
        "memory_optimized" => FiveLevelPoolConfig::memory_optimized(),
        "realtime" => FiveLevelPoolConfig::realtime(),
        "a4" | "a32" | "a64" | "a128" | "a256" => {
            let al: usize = var[1..].parse().ok()?;
            FiveLevelPoolConfig {
                max_fast_block_size: 8 * al,
                alignment: al,
                initial_capacity: 64 * al,
                arena_size: 64 * al,
                fixed_capacity: None,
                enable_cache_alignment: false,
                cache_config: None,
                enable_numa_awareness: false,
                ..FiveLevelPoolConfig::default()
            }
        }
        "tiny" => FiveLevelPoolConfig {
            max_fast_block_size: 256,
            alignment: 8,
            initial_capacity: 4096,
            arena_size: 4096,
            fixed_capacity: None,
            enable_cache_alignment: false,
            cache_config: None,
            enable_numa_awareness: false,
            ..FiveLevelPoolConfig::default()
        },
        _ => return None,
    })
}

fn make(name: &str, excl: &Excl) -> Option<Box<dyn Pool>> {
    let (fam, var) = (fam_of(name), variant_of(name));
    let excl = excl.clone();
    Some(match fam {
        "secure" => {
            let cfg = match var {
                "small" => SecurePoolConfig::small_secure(),
                "medium" => SecurePoolConfig::medium_secure(),
                "large" => SecurePoolConfig::large_secure(),
                "small_c0" => SecurePoolConfig::small_secure().with_local_cache_size(0),
                "small_c1" => SecurePoolConfig::small_secure().with_local_cache_size(1),
                "small_a64" => SecurePoolConfig::small_secure().with_alignment(64),
                "new256_a16" => SecurePoolConfig::new(256, 4, 16),
                "new64_a32_c1" => SecurePoolConfig::new(64, 2, 32).with_local_cache_size(1).with_zero_on_free(false),
                "a1" => SecurePoolConfig::new(100, 3, 1),
                "a2" => SecurePoolConfig::new(50, 3, 2),
                "a128" => SecurePoolConfig::new(96, 4, 128),
                "a256" => SecurePoolConfig::small_secure().with_alignment(256),
                "a4096" => SecurePoolConfig::new(4096, 2, 4096).with_zero_on_alloc(true),
                "a64k" => SecurePoolConfig::new(128, 2, 65536).with_local_cache_size(1),
                "new40_a8" => SecurePoolConfig::new(40, 3, 8).with_zero_on_alloc(true), // below the SIMD threshold: scalar zeroing
                // every flag that changes what allocate / release touch, in two opposite settings;
                // chunk sizes that are no multiple of the SIMD widths
                "cfg_a" => SecurePoolConfig::new(200, 4, 8)
                    .with_zero_on_alloc(true)
                    .with_zero_on_free(true)
                    .with_simd_ops(true)
                    .with_simd_threshold(16)
                    .with_guard_pages(true)
                    .with_cache_alignment(true)
                    .with_cache_config(Some(CacheLayoutConfig::sequential()))
                    .with_access_pattern(AccessPattern::Sequential)
                    .with_hot_cold_separation(true)
                    .with_hot_data_threshold(1)
                    .with_huge_pages(true)
                    .with_huge_page_threshold(64)
                    .with_numa_awareness(true)
                    .with_prefetch_distance(2)
                    .with_batch_size(1)
                    .with_local_cache_size(2),
                "cfg_b" => SecurePoolConfig::new(1000, 4, 16)
                    .with_zero_on_alloc(true)
                    .with_zero_on_free(false)
                    .with_simd_ops(false)
                    .with_simd_threshold(4096)
                    .with_guard_pages(false)
                    .with_cache_alignment(false)
                    .with_cache_config(None)
                    .with_hot_cold_separation(false)
                    .with_huge_pages(false)
                    .with_numa_awareness(false)
                    .with_prefetch_distance(0)
                    .with_batch_size(64),
                "global_small" | "global_medium" | "global_large" => {
                    // the process-wide pools behind get_global_pool_for_size
                    let size = match var {
                        "global_small" => 1000,
                        "global_medium" => 1025,
                        _ => 64 * 1024 + 1,
                    };
                    let pool = Arc::clone(zipora::memory::get_global_pool_for_size(size));
                    let (chunk, align) = (pool.config().chunk_size, pool.config().alignment);
                    return Some(Box::new(Secure { pool, chunk, align, excl, n: 0 }));
                }
                _ => return None,
            };
            let (chunk, align) = (cfg.chunk_size, cfg.alignment);
            Box::new(Secure { pool: SecureMemoryPool::new(cfg).ok()?, chunk, align, excl, n: 0 })
        }
        "lockfree" => {
            let cfg = match var {
                "default" => LockFreePoolConfig::default(),
                "compact" => LockFreePoolConfig::compact(),
                "high_performance" => LockFreePoolConfig::high_performance(),
                "tiny" => LockFreePoolConfig { memory_size: 4096, ..LockFreePoolConfig::compact() },
                "small64k" => LockFreePoolConfig { memory_size: 65536, ..LockFreePoolConfig::default() },
                // scrub-on-free, with and without the SIMD path
                "zero_simd" => LockFreePoolConfig { memory_size: 1 << 20, zero_on_free: true, enable_simd_optimization: true, ..LockFreePoolConfig::default() },
                "zero_nosimd" => LockFreePoolConfig { zero_on_free: true, enable_simd_optimization: false, ..LockFreePoolConfig::compact() },
                "zero_small64k" => LockFreePoolConfig { memory_size: 65536, zero_on_free: true, enable_simd_optimization: true, ..LockFreePoolConfig::high_performance() },
                _ => return None,
            };
            let mem_size = cfg.memory_size;
            Box::new(LockFree { pool: Arc::new(LockFreeMemoryPool::new(cfg).ok()?), k: 0, mem_size, excl, foreign: Box::new([0; 16]), last: None })
        }
        "tlpool" => {
            let cfg = match var {
                "default" => ThreadLocalPoolConfig::default(),
                "compact" => ThreadLocalPoolConfig::compact(),
                "high_performance" => ThreadLocalPoolConfig::high_performance(),
                // tiny arenas: many arena generations within one run
                "tiny4k" => ThreadLocalPoolConfig { arena_size: 4096, max_cached_chunks: 4, use_secure_memory: false, ..ThreadLocalPoolConfig::default() },
                "tiny64k" => ThreadLocalPoolConfig { arena_size: 65536, max_cached_chunks: 8, ..ThreadLocalPoolConfig::compact() },
                _ => return None,
            };
            let arena = cfg.arena_size;
            Box::new(TlPool { pool: ThreadLocalMemoryPool::new(cfg).ok()?, arena, excl })
        }
        "fixedcap" => {
            let cfg = match var {
                "default" => FixedCapacityPoolConfig::default(),
                "small_objects" => FixedCapacityPoolConfig::small_objects(),
                "medium_objects" => FixedCapacityPoolConfig::medium_objects(),
                "realtime" => FixedCapacityPoolConfig::realtime(),
                "secure" => FixedCapacityPoolConfig::secure(),
                "tiny" => FixedCapacityPoolConfig { max_block_size: 128, total_blocks: 6, ..FixedCapacityPoolConfig::default() },
                "a1" => FixedCapacityPoolConfig { max_block_size: 100, total_blocks: 8, alignment: 1, ..FixedCapacityPoolConfig::default() },
                "a2" => FixedCapacityPoolConfig { max_block_size: 100, total_blocks: 8, alignment: 2, ..FixedCapacityPoolConfig::default() },
                "a128" => FixedCapacityPoolConfig { max_block_size: 1024, total_blocks: 8, alignment: 128, ..FixedCapacityPoolConfig::default() },
                "a256" => FixedCapacityPoolConfig { max_block_size: 768, total_blocks: 8, alignment: 256, ..FixedCapacityPoolConfig::default() },
                "a4096" => FixedCapacityPoolConfig { max_block_size: 8192, total_blocks: 6, alignment: 4096, eager_allocation: false, ..FixedCapacityPoolConfig::default() },
                "lazy" => FixedCapacityPoolConfig { max_block_size: 200, total_blocks: 12, eager_allocation: false, secure_clear: true, ..FixedCapacityPoolConfig::default() },
                _ => return None,
            };
            let (align, maxb) = (cfg.alignment, cfg.max_block_size);
            let cheap = cfg.total_blocks <= 16;
            let pool = Box::new(FixedCapacityMemoryPool::new(cfg).ok()?);
            let classes = fixedcap_classes(&pool, maxb);
            Box::new(FixedCap { pool, align, maxb, classes, cheap })
        }
        "mempool" => {
            let cfg = match var {
                "small" => PoolConfig::small(),
                "medium" => PoolConfig::medium(),
                "large" => PoolConfig::large(),
                "custom96_a32" => PoolConfig::new(96, 2, 32),
                "a1" => PoolConfig::new(100, 2, 1),
                "a2" => PoolConfig::new(50, 2, 2),
                "a128" => PoolConfig::new(96, 3, 128),
                "a256" => PoolConfig::new(1000, 3, 256),
                "a4096" => PoolConfig::new(4096, 2, 4096),
                "a64k" => PoolConfig::new(128, 2, 65536),
                _ => return None,
            };
            let (chunk, align) = (cfg.chunk_size, cfg.alignment);
            Box::new(MemPool { pool: Arc::new(MemoryPool::new(cfg).ok()?), chunk, align, last: None })
        }
        "pooledvec" => match var {
            "u8" => Box::new(PVecU8),
            "big" => Box::new(PVecBig),
            _ => return None,
        },
        "pooledbuf" => Box::new(PBuf { excl }),
        "tiered" => {
            let mut cfg = TieredConfig::default();
            match var {
                "default" => {}
                "no_small" => cfg.enable_small_pools = false,
                "no_medium" => cfg.enable_medium_pools = false,
                "no_mmap" => cfg.enable_mmap_large = false,
                "global" => {}
                _ => return None,
            }
            Box::new(Tiered { a: TieredMemoryAllocator::new(cfg.clone()).ok()?, cfg, global: var == "global" })
        }
        "bump" => match var {
            "4k" => Box::new(Bump { a: Box::new(BumpAllocator::new(4096).ok()?), slice: false, vec: false }),
            "1m" => Box::new(Bump { a: Box::new(BumpAllocator::new(1 << 20).ok()?), slice: false, vec: false }),
            "slice" => Box::new(Bump { a: Box::new(BumpAllocator::new(8192).ok()?), slice: true, vec: false }),
            "vec" => Box::new(Bump { a: Box::new(BumpAllocator::new(8000).ok()?), slice: false, vec: true }),
            _ => return None,
        },
        "arena" => match var {
            "4k" => Box::new(Arena { scopes: vec![], a: Box::new(BumpArena::new(4096).ok()?) }),
            "64k" => Box::new(Arena { scopes: vec![], a: Box::new(BumpArena::new(65536).ok()?) }),
            _ => return None,
        },
        "fl_nolock" | "fl_mutex" | "fl_lockfree" | "fl_tlocal" | "fl_fixed" => {
            let mut cfg = fl_config(var)?;
            if fam == "fl_fixed" && var == "tiny" {
                cfg.fixed_capacity = Some(2048);
            }
            let c = cfg.clone();
            let p = match fam {
                "fl_nolock" => FL::NoLock(NoLockingPool::new(c).ok()?),
                "fl_mutex" => FL::Mutex(MutexBasedPool::new(c).ok()?),
                "fl_lockfree" => FL::LockFree(LockFreePool::new(c).ok()?),
                "fl_tlocal" => FL::TLocal(ThreadLocalPool::new(c).ok()?),
                _ => FL::Fixed(FixedCapacityPool::new(c).ok()?),
            };
            Box::new(Five { p, cfg, excl })
        }
        "fl_adaptive" => {
            let (cfg, level) = match var {
                "auto_default" => (FiveLevelPoolConfig::default(), None),
                "auto_realtime" => (FiveLevelPoolConfig::realtime(), None),
                "l1" => (FiveLevelPoolConfig::default(), Some(ConcurrencyLevel::SingleThread)),
                "l2" => (FiveLevelPoolConfig::default(), Some(ConcurrencyLevel::MultiThreadMutex)),
                "l3" => (FiveLevelPoolConfig::default(), Some(ConcurrencyLevel::MultiThreadLockFree)),
                "l4" => (FiveLevelPoolConfig::default(), Some(ConcurrencyLevel::ThreadLocal)),
                "l5" => (FiveLevelPoolConfig::realtime(), Some(ConcurrencyLevel::FixedCapacity)),
                _ => return None,
            };
            let p = match level {
                None => AdaptiveFiveLevelPool::new(cfg.clone()).ok()?,
                Some(l) => AdaptiveFiveLevelPool::with_level(cfg.clone(), l).ok()?,
            };
            Box::new(Five { p: FL::Adaptive(p), cfg, excl })
        }
        "fl_handle" => {
            let level = match var {
                "l2" => ConcurrencyLevel::MultiThreadMutex,
                "l3" => ConcurrencyLevel::MultiThreadLockFree,
                "l4" => ConcurrencyLevel::ThreadLocal,
                _ => return None,
            };
            let cfg = fl_config("memory_optimized")?;
            let p = AdaptiveFiveLevelPool::with_level(cfg.clone(), level).ok()?;
            let h = p.get_handle().ok()?;
            Box::new(Five { p: FL::Handle(p, h), cfg, excl })
        }
        "cachevec" => Box::new(CacheVec),
        "mmap" => match var {
            "default" => Box::new(Mmap { a: MemoryMappedAllocator::default(), min: 16 * 1024 }),
            "min4k" => Box::new(Mmap { a: MemoryMappedAllocator::new(4096), min: 4096 }),
            _ => return None,
        },
        "hugepage" => Box::new(Huge { a: HugePageAllocator::with_config(4096, 2 * 1024 * 1024).ok()? }),
        "cacheopt" => Box::new(CacheOpt { a: CacheOptimizedAllocator::optimal() }),
        "numa" => {
            let _ = zipora::memory::cache::init_numa_pools();
            Box::new(Numa)
        }
        _ => return None,
    })
}

// ---------------------------------------------------------------- one run: executing operations, logging events

#[derive(Default, Clone)]
struct Counts {
    alloc_ok: usize,
    refused: usize,
    frees: usize,
    touches: usize,
    panics: usize,
    events: usize,
}

struct Run {
    pool: Option<Box<dyn Pool>>,
    live: Vec<(u32, Blk)>,
    next_id: u32,
    last_freed: Option<u32>,
    dead: bool,
    buf: Option<Vec<Value>>, // Some: buffered (written only when the history is selected)
    issued: usize,
    scopes: Vec<usize>,      // arena scopes: number of live blocks when the scope began
    extent: Option<(u64, u64)>, // lowest address / highest end address of all blocks handed out in this run
    c: Counts,
}

fn clamp(x: u64) -> u64 {
    x.min(I32MAX)
}

impl Run {
    fn new(pool: Box<dyn Pool>, buffered: bool) -> Run {
        Run { pool: Some(pool), live: vec![], next_id: 1, last_freed: None, dead: false, buf: if buffered { Some(vec![]) } else { None }, issued: 0, scopes: vec![], extent: None, c: Counts::default() }
    }
    fn emit(&mut self, v: Value) {
        self.c.events += 1;
        match self.buf.as_mut() {
            Some(b) => b.push(v),
            None => jev(&v),
        }
    }
    fn pool(&mut self) -> &mut Box<dyn Pool> {
        self.pool.as_mut().unwrap()
    }
    fn panic(&mut self, op: &str, b: u32, req: u64, msg: String) {
        self.c.panics += 1;
        self.dead = true;
        self.emit(json!({"op":"panic","t":0,"in":op,"b":b,"req":clamp(req),"msg":msg.chars().take(160).collect::<String>()}));
    }
    /// allocate; `fill` = write the block's pattern (not done where a witness expects the block to be unusable)
    fn alloc(&mut self, want: usize, align: usize, fill: bool) -> Option<u32> {
        if self.dead {
            return None;
        }
        let want = self.pool().snap(want);
        let req = self.pool().req(want);
        let cost = req.saturating_add(63) & !63;
        if let Some(b) = self.pool().budget() {
            if self.issued.saturating_add(cost) > b {
                return None;
            }
        }
        self.issued = self.issued.saturating_add(cost);
        let id = self.next_id;
        self.next_id += 1;
        let cap = self.pool().cap();
        let p = self.pool.as_mut().unwrap();
        match guard(|| p.alloc(req, align)) {
            Err(msg) => {
                self.panic("alloc", id, req as u64, msg);
                None
            }
            Ok(None) => {
                self.c.refused += 1;
                self.emit(json!({"op":"alloc","t":0,"b":id,"req":clamp(req as u64),"align":align,"ok":false}));
                None
            }
            Ok(Some(b)) => {
                self.admit(id, want, req, b, cap, fill, "alloc");
                Some(id)
            }
        }
    }
    /// log a block the pool handed out, write its pattern, remember it as live
    fn admit(&mut self, id: u32, want: usize, req: usize, mut b: Blk, cap: Option<u64>, fill: bool, via: &str) {
        let huge = req as u64 > I32MAX;
        self.c.alloc_ok += 1;
        b.req = want;
        let reg = match b.reg {
            Some((lo, hi)) => json!([[lo, hi]]),
            None => json!([]),
        };
        let capj = match cap {
            Some(c) => json!([clamp(c)]),
            None => json!([]),
        };
        let len = if huge { I32MAX } else { clamp(b.len) };
        let end = b.addr.saturating_add(if huge { I32MAX } else { b.len });
        let ext = match self.extent {
            Some((lo, hi)) => (lo.min(b.addr), hi.max(end)),
            None => (b.addr, end),
        };
        self.extent = Some(ext);
        let span = if self.pool().arena() { json!([clamp(ext.1 - ext.0)]) } else { json!([]) };
        self.emit(json!({"op":"alloc","t":0,"b":id,"req":clamp(req as u64),"align":b.align,"ok":true,"len":len,"via":via,"span":span,
            "mis":b.addr % b.align,"lo":b.addr,"hi":b.addr.saturating_add(if huge { I32MAX } else { b.len }),"reg":reg,"cap":capj,"huge":huge}));
        if fill && !huge {
            let p = self.pool.as_mut().unwrap();
            if let Err(msg) = guard(|| p.fill(&mut b, id)) {
                self.live.push((id, b));
                self.panic("fill", id, req as u64, msg);
                return;
            }
        }
        self.live.push((id, b));
    }
    /// the pool's bulk entry point: one alloc event per block handed out (same contract action)
    fn alloc_bulk(&mut self, wants: &[usize]) -> bool {
        if self.dead || wants.is_empty() {
            return false;
        }
        let wants: Vec<usize> = wants.iter().map(|&w| self.pool().snap(w)).collect();
        let reqs: Vec<usize> = wants.iter().map(|&w| self.pool().req(w)).collect();
        let cost: usize = reqs.iter().map(|r| r.saturating_add(63) & !63).sum();
        if let Some(b) = self.pool().budget() {
            if self.issued.saturating_add(cost) > b {
                return false;
            }
        }
        let cap = self.pool().cap();
        let p = self.pool.as_mut().unwrap();
        match guard(|| p.alloc_bulk(&reqs)) {
            Err(msg) => {
                self.panic("alloc_bulk", self.next_id, reqs[0] as u64, msg);
                true
            }
            Ok(None) => false,
            Ok(Some(None)) => {
                self.issued = self.issued.saturating_add(cost);
                let id = self.next_id;
                self.next_id += 1;
                self.c.refused += 1;
                self.emit(json!({"op":"alloc","t":0,"b":id,"req":clamp(reqs[0] as u64),"align":8,"ok":false,"via":"bulk"}));
                true
            }
            Ok(Some(Some(blocks))) => {
                self.issued = self.issued.saturating_add(cost);
                let n = blocks.len();
                for (i, b) in blocks.into_iter().enumerate() {
                    let id = self.next_id;
                    self.next_id += 1;
                    let (w, r) = (wants.get(i).copied().unwrap_or(0), reqs.get(i).copied().unwrap_or(0));
                    self.admit(id, w, r, b, cap, true, "bulk");
                    if self.dead {
                        break;
                    }
                }
                if n != reqs.len() {
                    // a bulk call hands out exactly what was asked for, or fails: anything else has no contract action
                    self.panic("alloc_bulk", self.next_id, reqs[0] as u64, format!("bulk call returned {n} blocks for {} requests", reqs.len()));
                }
                true
            }
        }
    }
    fn free_idx(&mut self, i: usize) {
        if self.dead || i >= self.live.len() || !self.pool().has_free() {
            return;
        }
        let (id, b) = self.live.remove(i);
        let ac = b.after_clear;
        let p = self.pool.as_mut().unwrap();
        match guard(|| p.free(b)) {
            Err(msg) => {
                let _ = ac;
                self.panic("free", id, 0, msg)
            }
            Ok(r) => {
                self.c.frees += 1;
                self.last_freed = Some(id);
                self.emit(json!({"op":"free","t":0,"b":id,"ok":r.unwrap_or(false),"after_clear":ac}));
            }
        }
    }
    fn free_id(&mut self, id: u32) {
        if let Some(i) = self.live.iter().position(|(x, _)| *x == id) {
            self.free_idx(i)
        }
    }
    /// re-read the pattern of every live block
    fn touch(&mut self) {
        if self.dead || self.live.is_empty() {
            return;
        }
        let p = self.pool.as_mut().unwrap();
        let live = &self.live;
        let r = guard(|| {
            let mut r = vec![];
            for (id, b) in live.iter() {
                if let Some(ok) = p.check(b, *id) {
                    r.push(json!([id, ok]));
                }
            }
            r
        });
        match r {
            Err(msg) => self.panic("touch", 0, 0, msg),
            Ok(r) => {
                if !r.is_empty() {
                    self.c.touches += r.len();
                    self.emit(json!({"op":"touch","t":0,"r":r}));
                }
            }
        }
    }
    fn release(&mut self, from: usize) {
        let ids: Vec<u32> = self.live.drain(from..).map(|(id, _)| id).collect();
        self.emit(json!({"op":"release","t":0,"bs":ids}));
    }
    fn maintenance(&mut self, k: u64) {
        if self.dead {
            return;
        }
        let n = self.live.len();
        let p = self.pool.as_mut().unwrap();
        match guard(|| p.maintenance(k, n)) {
            Err(msg) => self.panic("maintenance", 0, 0, msg),
            Ok(None) => {}
            Ok(Some((what, cleared))) => {
                if cleared {
                    for (_, b) in self.live.iter_mut() {
                        b.after_clear = true;
                    }
                }
                self.emit(json!({"op":"maintenance","t":0,"what":what}));
            }
        }
    }
    fn foreign_free(&mut self) {
        if self.dead {
            return;
        }
        let p = self.pool.as_mut().unwrap();
        match guard(|| p.foreign_free()) {
            Err(msg) => self.panic("ffree", 0, 0, msg),
            Ok(None) => {}
            Ok(Some(accepted)) => self.emit(json!({"op":"ffree","t":0,"ok":accepted})),
        }
    }
    fn double_free(&mut self) {
        if self.dead {
            return;
        }
        let Some(id) = self.last_freed else { return };
        let p = self.pool.as_mut().unwrap();
        match guard(|| p.free_again()) {
            Err(msg) => self.panic("dfree", id, 0, msg),
            Ok(None) => {}
            Ok(Some(accepted)) => self.emit(json!({"op":"dfree","t":0,"b":id,"ok":accepted})),
        }
    }
    fn scope(&mut self, begin: bool) {
        if self.dead {
            return;
        }
        if begin {
            if self.pool().scope(true) {
                self.scopes.push(self.live.len());
                self.emit(json!({"op":"maintenance","t":0,"what":"scope_begin"}));
            }
        } else if let Some(mark) = self.scopes.last().copied() {
            if self.pool().scope(false) {
                self.scopes.pop();
                self.release(mark);
            }
        }
    }
    fn reset_all(&mut self) {
        if self.dead || !self.scopes.is_empty() {
            return;
        }
        if self.pool().reset_all() {
            self.release(0);
        }
    }
    /// give everything back, close the run.  `leak`: the pool may be corrupted (witness of a defect)
    fn end(&mut self, leak: bool) {
        if !self.dead && !leak {
            self.touch();
            while !self.scopes.is_empty() && !self.dead {
                self.scope(false);
            }
            if self.pool().has_free() {
                while !self.live.is_empty() && !self.dead {
                    let i = self.live.len() - 1;
                    self.free_idx(i);
                }
            } else {
                self.reset_all();
            }
        }
        if !self.dead {
            self.emit(json!({"op":"end","t":0}));
        }
        if self.dead || leak {
            for (_, b) in self.live.drain(..) {
                std::mem::forget(b);
            }
            std::mem::forget(self.pool.take());
        } else {
            self.live.clear(); // blocks of a pool without per-block free: plain data
        }
    }
}

fn reset_event(name: &str, mode: &str, seed: u64, extra: Value) -> Value {
    let mut e = json!({"op":"reset","domain":"alloc","subject":name,"fam":fam_of(name),"variant":variant_of(name),"mode":mode,"seed":seed,"wit":"none"});
    if let (Some(o), Some(x)) = (e.as_object_mut(), extra.as_object()) {
        for (k, v) in x {
            o.insert(k.clone(), v.clone());
        }
    }
    e
}

fn in_thread<T: Send>(fresh: bool, f: impl FnOnce() -> T + Send) -> T {
    if fresh {
        std::thread::scope(|s| s.spawn(f).join().expect("harness thread"))
    } else {
        f()
    }
}

// ---------------------------------------------------------------- B1: seeded random histories

fn pick_size(rng: &mut Rng, pool: &dyn Pool) -> usize {
    let cl = pool.classes();
    let (mn, mx) = (pool.min(), pool.max());
    match rng.below(100) {
        0..=69 => {
            let c = *rng.pick(&cl);
            match rng.below(8) {
                0 | 1 => c.saturating_sub(1).max(1),
                2 | 3 => c,
                4 | 5 => c + 1,
                // further from the boundary: sizes that are no multiple of 8 / 16 / 32 / 64 on both sides
                6 => c.saturating_sub(*rng.pick(&[3, 7, 9, 15, 17, 31, 33, 63])).max(1),
                _ => c + *rng.pick(&[3, 7, 9, 15, 17, 31, 33, 63]),
            }
        }
        70..=79 => mn,
        80..=86 => mx,
        87..=91 => mx + 1,
        92..=93 => mn.saturating_sub(1).max(1),
        _ => rng.range(mn as u64, mx.min(1 << 21) as u64) as usize,
    }
}

/// rounds of: k equal blocks in a row (address neighbours in every bump / arena / chunk carving pool),
/// every other one given back, the rest re-read, the gaps refilled, everything given back
fn drive_adjacent(run: &mut Run, rng: &mut Rng, rounds: usize) {
    let aligns = run.pool().aligns();
    let has_free = run.pool().has_free();
    for _ in 0..rounds {
        if run.dead {
            break;
        }
        let size = pick_size(rng, run.pool().as_ref()).min(run.pool().max());
        let al = *rng.pick(&aligns);
        let k = (run.pool().max_live().min(8)).max(4);
        let first = run.live.len();
        for _ in 0..k {
            run.alloc(size, al, true);
        }
        run.touch();
        if has_free {
            // free every other block of the row (from the back, so that indices stay valid)
            let mut i = run.live.len();
            while i > first {
                i -= 1;
                if (i - first) % 2 == 0 {
                    run.free_idx(i);
                    run.touch();
                }
            }
            for _ in 0..k / 2 {
                run.alloc(size, al, true);
            }
            run.touch();
            while run.live.len() > first && !run.dead {
                let i = run.live.len() - 1;
                run.free_idx(i);
            }
            run.touch();
        } else if run.scopes.is_empty() {
            run.reset_all();
        } else {
            run.scope(false);
            run.scope(true);
        }
    }
}

/// many generations: the first blocks stay live (filled with their pattern) while the pool goes through
/// `n` more allocations - many arenas / chunks / regions -, every live block re-read after every step; the
/// system allocator is used in between (buffers of the arena size with another pattern), so that memory a
/// pool gave back too early is handed out again; finally everything is freed in allocation order or in reverse
fn drive_generations(run: &mut Run, rng: &mut Rng, n: usize, reverse: bool) {
    let (size, filler) = run.pool().gen_sizes();
    let aligns = run.pool().aligns();
    let al = aligns[0];
    let snapped = run.pool().snap(size);
    let req = run.pool().req(snapped).max(1);
    let n = n.min(((32usize << 20) / req).max(8));
    let mut ring: std::collections::VecDeque<Vec<u8>> = std::collections::VecDeque::new();
    for i in 0..n {
        if run.dead {
            break;
        }
        // mostly one size (fills arenas evenly), sometimes a neighbouring one
        let s = if rng.chance(1, 8) { size.saturating_sub(1 + rng.below(9) as usize).max(1) } else { size };
        run.alloc(s, al, true);
        // foreign allocations of the arena size: reuse of anything the pool released
        for _ in 0..2 {
            let mut v = vec![0xA5u8; filler.max(16)];
            v[0] = i as u8;
            std::hint::black_box(&mut v);
            ring.push_back(v);
        }
        while ring.len() > 6 {
            ring.pop_front();
        }
        run.touch();
    }
    if run.pool().has_free() {
        let mut k = 0usize;
        while !run.live.is_empty() && !run.dead {
            let i = if reverse { run.live.len() - 1 } else { 0 };
            run.free_idx(i);
            k += 1;
            if k % 4 == 0 {
                ring.push_back(vec![0x5Au8; filler.max(16)]);
                if ring.len() > 6 {
                    ring.pop_front();
                }
                run.touch();
            }
        }
    }
    drop(ring);
}

fn drive_run(run: &mut Run, rng: &mut Rng, regime: &str, steps: usize) {
    if regime == "generations" || regime == "generations_rev" {
        return drive_generations(run, rng, steps, regime == "generations_rev");
    }
    if regime == "adjacent" {
        if !run.pool().has_free() {
            run.scope(true);
        }
        return drive_adjacent(run, rng, steps);
    }
    let max_live = run.pool().max_live();
    let aligns = run.pool().aligns();
    let has_free = run.pool().has_free();
    // exhaustion: small classes of the pool, allocate until refused, then churn
    let mut exhausted = false;
    if !has_free {
        run.scope(true); // arenas: everything happens inside a scope, so that it can be released again
    }
    for step in 0..steps {
        if run.dead {
            break;
        }
        let ev0 = run.c.events;
        let c = rng.below(100);
        let nlive = run.live.len();
        let want_alloc = match regime {
            "exhaust" => !exhausted && nlive < 40,
            "churn" => nlive < 3 || (nlive < 5 && c < 45),
            _ => nlive < max_live && c < 52,
        };
        if want_alloc {
            let size = match regime {
                "exhaust" => {
                    let cl = run.pool().classes();
                    let c = cl[cl.len() / 2..].first().copied().unwrap_or(64);
                    *rng.pick(&[c, c, c.saturating_sub(1).max(1), run.pool().max()])
                }
                "churn" => {
                    // few neighbouring classes: recycling under neighbouring sizes
                    let cl = run.pool().classes();
                    let k = (rng.0 as usize >> 7) % cl.len().max(1);
                    let base = cl[(k / 3 * 3).min(cl.len() - 1)];
                    *rng.pick(&[base.saturating_sub(1).max(1), base, base + 1, base.saturating_sub(7).max(1), base + 8])
                }
                _ => pick_size(rng, run.pool().as_ref()),
            };
            let before = run.c.refused;
            let n = 2 + rng.below(3) as usize;
            let bulk = rng.chance(1, 6) && nlive + n <= max_live.max(5) && {
                let sizes: Vec<usize> = (0..n).map(|i| if i == 0 { size } else { pick_size(rng, run.pool().as_ref()).min(run.pool().max()) }).collect();
                run.alloc_bulk(&sizes)
            };
            if !bulk {
                run.alloc(size, *rng.pick(&aligns), true);
            }
            if run.c.refused > before && regime == "exhaust" && step > 4 {
                exhausted = true;
            }
            if run.c.refused > before && !has_free && rng.chance(1, 2) {
                // a full arena: release the innermost scope (or everything) and go on
                if run.scopes.is_empty() {
                    run.reset_all();
                } else {
                    run.scope(false);
                    run.scope(true);
                }
            }
            run.touch();
        } else if c < 90 && nlive > 0 && has_free {
            let i = rng.below(nlive as u64) as usize;
            run.free_idx(i);
            run.touch();
            if regime == "exhaust" && exhausted && rng.chance(1, 3) {
                exhausted = false;
            }
        } else if !has_free && c < 80 {
            match rng.below(5) {
                0 => run.scope(true),
                1 | 2 => run.scope(false),
                3 => run.reset_all(),
                _ => run.maintenance(rng.next()),
            }
            if run.c.events > ev0 {
                run.touch();
            }
        } else if c < 95 {
            run.maintenance(rng.next());
            run.touch();
        } else if nlive > 0 && has_free {
            run.foreign_free();
            // the pool must stay usable: give one block back and ask for the same size again
            let (want, al) = (run.live[0].1.req, run.live[0].1.align as usize);
            run.free_idx(0);
            run.alloc(want, al, true);
            run.touch();
        }
        if regime == "exhaust" && !has_free && exhausted {
            run.reset_all();
            exhausted = false;
        }
    }
}

fn child_drive(a: &Args, name: &str, excl: &Excl) -> Value {
    let rng0 = Rng::new(a.seed).derive(name);
    let regimes: Vec<(&str, usize, usize)> = if a.thorough() {
        vec![("mixed", 120, 40), ("churn", 120, 30), ("exhaust", 260, 6), ("adjacent", 10, 10), ("generations", 160, 2), ("generations_rev", 160, 2)]
    } else {
        vec![("mixed", 50, 3), ("churn", 50, 2), ("exhaust", 120, 1), ("adjacent", 5, 2), ("generations", 48, 1), ("generations_rev", 48, 1)]
    };
    // quick tier: the 35 five-level subjects share their code paths pairwise (no contents to re-read): fewer runs each
    let regimes: Vec<(&str, usize, usize)> = if !a.thorough() && fam_of(name).starts_with("fl_") {
        vec![("mixed", 50, 2), ("churn", 50, 1), ("exhaust", 120, 1), ("adjacent", 5, 1)]
    } else {
        regimes
    };
    let mut tot = Counts::default();
    let mut runs = 0usize;
    let mut constructed = true;
    for (ri, &(regime, steps, nruns)) in regimes.iter().enumerate() {
        for r in 0..nruns {
            let mut rng = rng0.derive(&format!("{regime}/{r}"));
            let c = in_thread(needs_thread(name), || {
                let pool = match guard(|| make(name, excl)) {
                    Ok(Some(p)) => p,
                    _ => return None,
                };
                if regime.starts_with("generations") && (pool.cap().is_some() || !pool.has_free()) {
                    return Some(Counts::default()); // a pool with one fixed arena does not grow
                }
                jev(&reset_event(name, "b1", a.seed, json!({"regime":regime,"ri":ri,"r":r})));
                let mut run = Run::new(pool, false);
                drive_run(&mut run, &mut rng, regime, steps);
                run.end(false);
                Some(run.c.clone())
            });
            match c {
                None => constructed = false,
                Some(c) => {
                    runs += 1;
                    tot.alloc_ok += c.alloc_ok;
                    tot.refused += c.refused;
                    tot.frees += c.frees;
                    tot.touches += c.touches;
                    tot.panics += c.panics;
                    tot.events += c.events;
                }
            }
        }
    }
    json!({"constructed":constructed,"runs":runs,"alloc_ok":tot.alloc_ok,"refused":tot.refused,"frees":tot.frees,"touched":tot.touches,"panics":tot.panics,"events":tot.events})
}

// ---------------------------------------------------------------- B2: TLC-generated histories

/// a history = JSON array of steps {op, b, s, ok, st}: abstract sizes, block numbers = order of allocation
fn child_replay(a: &Args, name: &str, excl: &Excl) -> Value {
    let input = a.input.clone().expect("--in");
    let text = std::fs::read_to_string(&input).expect("read behaviours");
    let hists: Vec<Value> = text.lines().filter(|l| !l.trim().is_empty()).map(|l| serde_json::from_str(l).expect("behaviour json")).collect();
    let sample_every = a.get_u64("sample", 75).max(1);
    let max_mismatch = a.get_u64("max_mismatch", 60) as usize;
    let mut rng = Rng::new(a.seed).derive("b2").derive(name);
    let fresh = needs_thread(name);
    let (mut executed, mut written, mut mism, mut mism_written) = (0usize, 0usize, 0usize, 0usize);
    let mut tot = Counts::default();
    let mut keep: Option<Box<dyn Pool>> = None; // a pool that is expensive to build is reused while it stays clean
    let mut constructed = true;
    let (sized, stride) = match in_thread(true, || guard(|| make(name, excl)).ok().flatten().map(|p| (p.sized(), p.stride()))) {
        Some(x) => x,
        None => (true, 1),
    };
    let stride = if a.thorough() { 1 } else { stride.max(1) };
    let mut shapes = std::collections::HashSet::new();
    let mut skipped = 0usize;
    for (hi, h) in hists.iter().enumerate() {
        let steps = match h.as_array() {
            Some(s) => s,
            None => continue,
        };
        if !sized {
            // sizes are ignored by this pool: one execution per shape (operations and block numbers)
            let shape: String = steps.iter().map(|st| format!("{}{};", st["op"].as_str().unwrap_or(""), if st["op"] == "free" { st["b"].as_u64().unwrap_or(0) } else { 0 })).collect();
            if !shapes.insert(shape) {
                skipped += 1;
                continue;
            }
        } else if (hi + a.seed as usize) % stride != 0 {
            skipped += 1;
            continue;
        }
        let sampled = if sized { rng.below(sample_every) == 0 } else { true };
        let kept = keep.take().map(SendBox);
        let out = in_thread(fresh, move || {
            let pool = match kept.map(|k| k.into_inner()) {
                Some(p) => p,
                None => match guard(|| make(name, excl)) {
                    Ok(Some(p)) => p,
                    _ => return None,
                },
            };
            // concretisation: the abstract sizes around two adjacent classes of the pool's own table
            let cl = pool.classes();
            let k = (hi + a.seed as usize) % cl.len().max(1);
            let (c1, c2) = (cl[k.min(cl.len() - 1)], cl[(k + 1).min(cl.len() - 1)]);
            let size_of = |s: &str| -> usize {
                match s {
                    "c1m" => c1.saturating_sub(1).max(1),
                    "c1" => c1,
                    "c1p" => c1 + 1,
                    "c2m" => c2.saturating_sub(1).max(1),
                    "c2" => c2,
                    "c2p" => c2 + 1,
                    "min" => pool.min(),
                    "max" => pool.max(),
                    _ => pool.max() + 1,
                }
            };
            let sizes: Vec<usize> = steps.iter().map(|st| size_of(st["s"].as_str().unwrap_or("min"))).collect();
            let aligns = pool.aligns();
            let cheap = pool.cheap();
            let mut run = Run::new(pool, true);
            let mut ids: Vec<Option<u32>> = vec![None]; // history block number -> run block id
            let mut differs = false;
            let mut any_refused = false;
            for (si, st) in steps.iter().enumerate() {
                if run.dead {
                    break;
                }
                match st["op"].as_str().unwrap_or("") {
                    "alloc" => {
                        let before = run.next_id;
                        let id = run.alloc(sizes[si], aligns[(hi + si) % aligns.len()], true);
                        if run.next_id == before {
                            // outside the driver's budget: not issued
                            ids.push(None);
                            any_refused = true;
                        } else {
                            any_refused |= id.is_none();
                            ids.push(id);
                        }
                    }
                    "free" => {
                        let b = st["b"].as_u64().unwrap_or(0) as usize;
                        if let Some(Some(id)) = ids.get(b).copied() {
                            if run.pool().has_free() {
                                let n = run.c.frees;
                                run.free_id(id);
                                differs |= run.c.frees == n;
                            } else {
                                any_refused = true;
                            }
                        }
                    }
                    _ => {}
                }
                run.touch();
                // what the contract fixes, computed by TLC: the set of live blocks (when nothing was refused)
                if !any_refused && !run.dead {
                    let exp: Vec<u32> = st["st"].as_array().map(|x| x.iter().filter_map(|q| ids.get(q.as_u64()? as usize).copied().flatten()).collect()).unwrap_or_default();
                    let mut got: Vec<u32> = run.live.iter().map(|(id, _)| *id).collect();
                    let mut exp = exp;
                    got.sort();
                    exp.sort();
                    differs |= got != exp;
                }
            }
            differs |= run.dead;
            run.end(false);
            differs |= run.dead;
            let evs = run.buf.take().unwrap_or_default();
            differs |= evs.iter().any(|e| (e["op"] == "free" && e["ok"] == json!(false)) || (e["op"] == "touch" && e["r"].as_array().map_or(false, |r| r.iter().any(|x| x[1] == json!(false)))));
            let pool = if !run.dead && !cheap { run.pool.take() } else { None };
            Some((evs, differs, run.c.clone(), json!({"c1":c1,"c2":c2}), pool.map(SendBox)))
        });
        let (evs, differs, c, conc, pool) = match out {
            None => {
                constructed = false;
                break;
            }
            Some(x) => x,
        };
        keep = if hi % 50 == 49 { None } else { pool.map(|p| p.0) };
        executed += 1;
        tot.alloc_ok += c.alloc_ok;
        tot.refused += c.refused;
        tot.frees += c.frees;
        tot.touches += c.touches;
        tot.panics += c.panics;
        if differs {
            mism += 1;
        }
        if sampled || (differs && mism_written < max_mismatch) {
            if differs {
                mism_written += 1;
            }
            written += 1;
            jev(&reset_event(name, "b2", a.seed, json!({"hist":hi,"differs":differs,"conc":conc})));
            for e in &evs {
                jev(e);
            }
            tot.events += evs.len();
        }
    }
    json!({"constructed":constructed,"histories":executed,"skipped":skipped,"stride":stride,"sized":sized,"written":written,"mismatching":mism,"alloc_ok":tot.alloc_ok,"refused":tot.refused,
        "frees":tot.frees,"touched":tot.touches,"panics":tot.panics,"events":tot.events})
}
/// a pool handed back from the (possibly fresh) thread that ran a history; only pools of subjects
/// that run inline (no fresh thread) are ever kept
struct SendBox(Box<dyn Pool>);
unsafe impl Send for SendBox {}
impl SendBox {
    fn into_inner(self) -> Box<dyn Pool> {
        self.0
    }
}

// ---------------------------------------------------------------- witnesses of the recorded known findings

/// (known finding, subject).  Each witness is executed in its own child on every check; TLC's
/// verdict on the recorded run decides whether the finding still reproduces (KNOWN-FINDING line,
/// trigger region left out of the random driver) or not (driver covers the region again).
const WITNESSES: &[(u32, &str)] = &[
    (1, "lockfree:compact"),
    (2, "lockfree:small64k"),
    (3, "tlpool:compact"),
    (4, "tlpool:compact"),
    (5, "tlpool:compact"),
    (8, "secure:small"),
    (10, "bump:4k"),
    (11, "fl_tlocal:default"),
    (12, "pooledbuf:global"),
    (13, "lockfree:compact"),
    (14, "mempool:small"),
];

fn child_witness(a: &Args, name: &str, kf: u32) -> Value {
    let none = Excl::default();
    let c = in_thread(true, || {
        let pool = match guard(|| make(name, &none)) {
            Ok(Some(p)) => p,
            _ => return None,
        };
        jev(&reset_event(name, "wit", a.seed, json!({"wit":format!("C07-KF{kf}")})));
        let mut run = Run::new(pool, false);
        let mut leak = true;
        match kf {
            1 => {
                // a 136-byte block is recycled for 144 bytes of the same bin
                let first = run.alloc(136, 8, true);
                run.alloc(136, 8, true);
                run.touch();
                if let Some(id) = first {
                    run.free_id(id);
                }
                run.alloc(144, 8, false);
            }
            2 => {
                // refused requests advance the 32-bit offset counter until it wraps into live blocks
                for _ in 0..12 {
                    run.alloc(4096, 8, true);
                }
                run.touch();
                let p = run.pool.as_mut().unwrap();
                let big = (1usize << 20) - 8;
                let mut served = 0u64;
                for _ in 0..4096 {
                    if let Some(b) = p.alloc(big, 8) {
                        served += 1;
                        std::mem::forget(b);
                    }
                }
                run.emit(json!({"op":"alloc_refused","t":0,"n":4096 - served,"served":served,"req":big}));
                run.alloc(64, 8, false);
            }
            3 => {
                // a 17-byte block (24 bytes carved) is recycled for 32 bytes of the same class
                let first = run.alloc(17, 8, true);
                run.alloc(17, 8, true);
                run.touch();
                if let Some(id) = first {
                    run.free_id(id);
                }
                run.alloc(32, 8, false);
            }
            4 => {
                // the hot area is replaced (and freed) while blocks carved from it are live
                for _ in 0..132 {
                    run.alloc(4096, 8, true);
                }
                run.touch();
            }
            5 => {
                // a request above arena_size / 4 re-enters the thread-local cache
                run.alloc(512 * 1024 / 4 + 8, 8, true);
                leak = false;
            }
            8 => {
                // clear() forgets the outstanding allocations; their release is then reported as a double free
                run.alloc(0, 8, true);
                run.alloc(0, 8, true);
                run.maintenance(2);
                run.touch();
                run.free_idx(0);
                run.alloc(0, 8, true);
                leak = false;
            }
            10 => {
                // size overflow in alloc_bytes
                run.alloc(64, 8, true);
                run.alloc(usize::MAX - 7, 8, false);
                run.alloc(64, 8, false);
            }
            11 => {
                // arena offsets and global offsets share one number space
                run.alloc(8, 8, true);
                run.alloc(32 * 1024 + 8, 8, false);
            }
            12 => {
                // a buffer longer than the largest chunk
                run.alloc((1 << 20) + 8192, 8, false);
            }
            13 | 14 => {
                let first = run.alloc(64, 8, true);
                run.alloc(64, 8, true);
                if let Some(id) = first {
                    run.free_id(id);
                }
                run.double_free();
            }
            _ => {}
        }
        run.end(leak);
        Some(run.c.clone())
    });
    json!({"constructed": c.is_some(), "events": c.map_or(0, |c| c.events)})
}

// ---------------------------------------------------------------- child entry

fn child(a: &Args) {
    let name = a.subject.clone().expect("--subject");
    let what = a.get("what").unwrap_or("drive").to_string();
    let excl = Excl(a.get("exclude").unwrap_or("").split(',').filter(|s| !s.is_empty()).map(|s| s.to_string()).collect());
    let journal = PathBuf::from(a.get("journal").expect("--journal"));
    journal_open(&journal);
    let summ = match what.as_str() {
        "drive" => child_drive(a, &name, &excl),
        "replay" => child_replay(a, &name, &excl),
        "witness" => child_witness(a, &name, a.get_u64("kf", 0) as u32),
        _ => json!({}),
    };
    jev(&json!({"op":"done","summary":summ}));
}

// ---------------------------------------------------------------- parent: children, rank compression, traces

fn sanitize(s: &str) -> String {
    s.chars().map(|c| if c.is_ascii_alphanumeric() { c } else { '_' }).collect()
}

/// replace the addresses of one run by their ranks among all interval end points of the run
fn compress(run: &mut [Value]) {
    let mut pts: Vec<u64> = vec![];
    for e in run.iter() {
        if e["op"] == "alloc" && e["ok"] == json!(true) {
            pts.push(e["lo"].as_u64().unwrap_or(0));
            pts.push(e["hi"].as_u64().unwrap_or(0));
            if let Some(r) = e["reg"].as_array().and_then(|r| r.first()) {
                pts.push(r[0].as_u64().unwrap_or(0));
                pts.push(r[1].as_u64().unwrap_or(0));
            }
        }
    }
    pts.sort();
    pts.dedup();
    let rank = |x: &Value| -> Value { json!(pts.binary_search(&x.as_u64().unwrap_or(0)).unwrap_or(0)) };
    for e in run.iter_mut() {
        if e["op"] == "alloc" && e["ok"] == json!(true) {
            e["lo"] = rank(&e["lo"]);
            e["hi"] = rank(&e["hi"]);
            if let Some(r) = e["reg"].as_array().and_then(|r| r.first()).cloned() {
                e["reg"] = json!([[rank(&r[0]), rank(&r[1])]]);
            }
        }
    }
}

struct Job {
    subject: String,
    what: String,
    kf: u32,
    journal: PathBuf,
    outcome: Option<ChildOutcome>,
}

fn run_jobs(a: &Args, jobs: &mut Vec<Job>, secs: u64) {
    let next = std::sync::atomic::AtomicUsize::new(0);
    let outcomes: Mutex<Vec<(usize, ChildOutcome)>> = Mutex::new(vec![]);
    let nthreads = a.get_u64("threads", 10) as usize;
    let jobs_ref: &Vec<Job> = jobs;
    std::thread::scope(|sc| {
        for _ in 0..nthreads {
            sc.spawn(|| loop {
                let i = next.fetch_add(1, std::sync::atomic::Ordering::SeqCst);
                if i >= jobs_ref.len() {
                    break;
                }
                let j = &jobs_ref[i];
                let mut args: Vec<String> = vec!["--mode".into(), "child".into(), "--what".into(), j.what.clone(), "--subject".into(), j.subject.clone(),
                    "--seed".into(), a.seed.to_string(), "--tier".into(), a.tier.clone(), "--journal".into(), j.journal.display().to_string(),
                    "--kf".into(), j.kf.to_string(), "--exclude".into(), a.get("exclude").unwrap_or("").to_string()];
                if let Some(i) = &a.input {
                    args.push("--in".into());
                    args.push(i.display().to_string());
                }
                for k in ["sample", "max_mismatch"] {
                    if let Some(v) = a.get(k) {
                        args.push(format!("--{k}"));
                        args.push(v.to_string());
                    }
                }
                let o = run_child(&args, secs, 0, true);
                outcomes.lock().unwrap().push((i, o));
            });
        }
    });
    for (i, o) in outcomes.into_inner().unwrap() {
        jobs[i].outcome = Some(o);
    }
}

/// journals -> trace files (one Tracer per job so that a subject's runs stay together)
fn emit_traces(a: &Args, jobs: &[Job], stem: &str) -> Value {
    let mut per = serde_json::Map::new();
    let (mut events, mut runs) = (0usize, 0usize);
    let mut files: Vec<String> = vec![];
    let mut crashes = 0usize;
    let mut timeouts = 0usize;
    // one trace file series per family; subjects of families with modelled known findings get their own,
    // so that a KF-mode re-validation stays small
    let group_of = |j: &Job| -> String {
        let f = fam_of(&j.subject);
        if j.kf > 0 {
            format!("{}-{}", sanitize(&j.subject), j.kf)
        } else {
            f.to_string()
        }
    };
    let mut cur_group = String::new();
    let mut trs: Vec<Tracer> = vec![];
    for (ji, j) in jobs.iter().enumerate() {
        let raw: Vec<Value> = if j.journal.exists() { read_ndjson(&j.journal) } else { vec![] };
        let mut summary = json!({});
        let mut finished = false;
        let mut cur: Vec<Value> = vec![];
        let mut all: Vec<Vec<Value>> = vec![];
        for e in raw {
            if e["op"] == "done" {
                summary = e["summary"].clone();
                finished = true;
                continue;
            }
            if e["op"] == "reset" && !cur.is_empty() {
                all.push(std::mem::take(&mut cur));
            }
            cur.push(e);
        }
        if !cur.is_empty() {
            all.push(cur);
        }
        // a child that died: the signal / timeout is an event of the run it was executing
        // a child that ran out of time gives NO verdict (a slow or stalled machine is not a defect of the code
        // under test, and the property states no time bound): the run it was executing is dropped, the runs it
        // completed are kept, the count goes into the summary
        if matches!(&j.outcome, Some(ChildOutcome::Timeout)) {
            timeouts += 1;
            all.pop();
        }
        let died = match &j.outcome {
            Some(ChildOutcome::Signal(s)) => Some(json!({"op":"crash","t":0,"sig":s})),
            Some(ChildOutcome::Timeout) => None,
            Some(ChildOutcome::Exit(c)) if *c != 0 || !finished => Some(json!({"op":"crash","t":0,"sig":0,"exit":c})),
            _ => None,
        };
        if let Some(d) = died {
            crashes += 1;
            if all.is_empty() {
                all.push(vec![reset_event(&j.subject, &j.what, a.seed, json!({"wit": if j.kf > 0 { format!("C07-KF{}", j.kf) } else { "none".to_string() }}))]);
            }
            all.last_mut().unwrap().push(d);
        }
        if trs.is_empty() || group_of(j) != cur_group {
            cur_group = group_of(j);
            let mut t = Tracer::new(&a.out, &format!("{stem}-{ji:03}"));
            t.max_events = 3500;
            trs.push(t);
        }
        let tr = trs.last_mut().unwrap();
        for mut run in all {
            compress(&mut run);
            let head = run[0].clone();
            let mut cfg = head.clone();
            if let Some(o) = cfg.as_object_mut() {
                for k in ["op", "domain", "subject"] {
                    o.remove(k);
                }
            }
            tr.reset("alloc", head["subject"].as_str().unwrap_or(&j.subject), cfg);
            for e in run.into_iter().skip(1) {
                tr.ev(e);
            }
        }
        let key = if j.kf > 0 { format!("{}#KF{}", j.subject, j.kf) } else { j.subject.clone() };
        if let Some(o) = summary.as_object_mut() {
            o.insert("outcome".into(), json!(format!("{:?}", j.outcome)));
        }
        per.insert(key, summary);
    }
    for tr in trs.iter_mut() {
        tr.close();
        events += tr.total_events;
        runs += tr.runs;
        files.extend(tr.files.iter().map(|p| p.display().to_string()));
    }
    json!({"events":events,"runs":runs,"files":files,"subjects":per,"crashes":crashes,"children_timed_out":timeouts})
}

fn parent(a: &Args, what: &str) {
    let rawdir = a.out.join("raw");
    let _ = std::fs::create_dir_all(&rawdir);
    let mut jobs: Vec<Job> = vec![];
    if what == "witness" {
        for &(kf, s) in WITNESSES {
            if a.wants(s) {
                jobs.push(Job { subject: s.to_string(), what: what.into(), kf, journal: rawdir.join(format!("wit-kf{kf}.jsonl")), outcome: None });
            }
        }
    } else {
        for s in subjects().into_iter().filter(|s| a.wants(s)) {
            jobs.push(Job { journal: rawdir.join(format!("{}.jsonl", sanitize(&s))), subject: s, what: what.into(), kf: 0, outcome: None });
        }
    }
    run_jobs(a, &mut jobs, if a.thorough() { 900 } else { 120 });
    let mut summ = emit_traces(a, &jobs, match what {
        "witness" => "wit",
        "replay" => "b2",
        _ => "b1",
    });
    summ["mode"] = json!(what);
    write_summary(&a.out, &summ);
}

fn main() {
    let a = Args::parse();
    quiet_panics();
    match a.mode.as_str() {
        "drive" => parent(&a, "drive"),
        "replay" => parent(&a, "replay"),
        "witness" => parent(&a, "witness"),
        "child" => child(&a),
        "subjects" => {
            for s in subjects() {
                println!("{s}");
            }
        }
        m => {
            eprintln!("c07: unknown mode {m}");
            std::process::exit(2)
        }
    }
}
