//! C19 — file-backed structures reopen as written; damaged files are refused.
//!
//! Binding B4 (fault enumeration).  The harness runs seeded operation histories on the REAL
//! file-backed structures in a scratch directory, snapshots the directory after every operation,
//! and reports the *shape* of every snapshot relative to the last sync snapshot.  TLC
//! (MC_DurableFileGen, crash model of spec/DurableFile.tla) enumerates the fault descriptors for
//! those shapes; the harness materialises exactly these images on the real bytes, reopens each
//! image IN A CHILD PROCESS (RLIMIT_AS 1 GiB, 10 s per image), reads everything readable through
//! the public API and logs (outcome, digest, extent).  TLC (Trace_DurableFile) judges.
//!
//! The harness holds no model of any zipora structure: it copies files, mixes blocks of two
//! snapshots as the descriptor says, and projects what the public API returns with `zv::digest`.
//!
//! modes:
//!   drive   --out D                 histories + snapshots (under /verif/work/C19-tmp), D/shapes.ndjson, D/runs.ndjson
//!   images  --out D --in FAULTS --runs RUNS   materialise + reopen (children) -> traces D/*.ndjson
//!   child   --spec S --res R        reopen one slice of images, one result line per image
//!   clean                           remove the scratch directory
use serde_json::{json, Value};
use std::collections::BTreeMap;
use std::fs;
use std::io::Write;
use std::marker::PhantomData;
use std::path::{Path, PathBuf};
use std::sync::atomic::{AtomicU64, AtomicUsize, Ordering};
use std::sync::{Arc, Mutex};
use zipora::blob_store::{
    BatchBlobStore, BlobStore, IterableBlobStore, PlainBlobStore, ZReorderMap, ZReorderMapBuilder, ZipOffsetBlobStore,
    ZipOffsetBlobStoreBuilder, ZipOffsetBlobStoreConfig,
};
use zipora::compression::dict_zip::{SuffixArrayDictionary, SuffixArrayDictionaryConfig};
use zipora::io::{AccessPattern, DataInput, DataOutput, FileDataOutput, MemoryMappedInput, MemoryMappedOutput, MmapDataInput};
use zipora::memory::{MmapVec, MmapVecConfig};
use zv::*;

/// default scratch directory; `--scratch DIR` overrides it (the orchestration passes <work>/C19-tmp
/// so that a check against another tree (ZV_REPO) does not share it)
const TMP: &str = "/verif/work/C19-tmp";

fn scratch(a: &Args) -> PathBuf {
    PathBuf::from(a.get("scratch").unwrap_or(TMP))
}

// ---------------------------------------------------------------- snapshots

fn list_files(dir: &Path) -> Vec<String> {
    let mut v: Vec<String> = match fs::read_dir(dir) {
        Ok(rd) => rd
            .filter_map(|e| e.ok())
            .filter(|e| e.path().is_file())
            .map(|e| e.file_name().to_string_lossy().to_string())
            .collect(),
        Err(_) => vec![],
    };
    v.sort();
    v
}

fn copy_dir(from: &Path, to: &Path) {
    let _ = fs::remove_dir_all(to);
    fs::create_dir_all(to).expect("create snapshot dir");
    for f in list_files(from) {
        fs::copy(from.join(&f), to.join(&f)).expect("copy into snapshot");
    }
}

fn read_opt(p: &Path) -> Option<Vec<u8>> {
    fs::read(p).ok()
}

/// Records the history of one run: a snapshot of the live directory and the logical content
/// (as read back through the public API by the subject) after every operation.
struct Recorder {
    run_dir: PathBuf,
    live: PathBuf,
    k: usize,
    points: Vec<Value>,
    ops: Vec<String>,
    bounds: Vec<Vec<usize>>,
    /// inode numbers of the live files at every snapshot (a replaced file has a new inode)
    inos: Vec<BTreeMap<String, u64>>,
    /// every snapshotted file stays open until the run ends, so that the inode number of a file
    /// that is later replaced cannot be handed out again
    handles: Vec<fs::File>,
    /// block size of the fault model for this run (16 / 512 / 4096)
    bs: usize,
    /// written multi-element runs [start, len] of a run-length subject (inputs of the history)
    wruns: Vec<Value>,
}

impl Recorder {
    fn new(run_dir: &Path) -> Recorder {
        let live = run_dir.join("live");
        let _ = fs::remove_dir_all(run_dir);
        fs::create_dir_all(&live).expect("create live dir");
        Recorder { run_dir: run_dir.to_path_buf(), live, k: 0, points: vec![], ops: vec![], bounds: vec![], inos: vec![], handles: vec![], bs: 512, wruns: vec![] }
    }
    /// `content`: None = no readable structure exists at this point (a builder in progress)
    fn snap(&mut self, op: &str, sync: bool, content: Option<Vec<u8>>, bounds: Vec<usize>) {
        self.k += 1;
        copy_dir(&self.live, &self.run_dir.join(format!("s{}", self.k)));
        let (d, valid) = match content {
            Some(c) => (digest(&c), true),
            None => (json!({"len":0,"h":[0,0]}), false),
        };
        self.points.push(json!({"len": d["len"], "h": d["h"], "sync": sync, "valid": valid}));
        self.ops.push(op.to_string());
        self.bounds.push(bounds);
        let mut m = BTreeMap::new();
        for f in list_files(&self.live) {
            if let Ok(h) = fs::File::open(self.live.join(&f)) {
                use std::os::unix::fs::MetadataExt;
                if let Ok(md) = h.metadata() {
                    m.insert(f, md.ino());
                }
                self.handles.push(h);
            }
        }
        self.inos.push(m);
    }
}

// ---------------------------------------------------------------- subjects

type Reopened = Result<(Vec<u8>, Option<u64>), String>;

/// bytes of the file its header claims to own (header + capacity), set by subjects that expose it
static CLAIM: AtomicU64 = AtomicU64::new(u64::MAX);
/// last maximal run (start, len) of the values a run-length subject yielded; len 0 = none
static TAIL: [AtomicU64; 2] = [AtomicU64::new(0), AtomicU64::new(0)];
/// a regeneration scenario a continuation ran on the side (see IoMmap::regen): one `regen` event
static REGEN: Mutex<Option<Value>> = Mutex::new(None);
/// access-script events a continuation ran on the side (see IoMmap::scripts)
static SCRIPTS: Mutex<Vec<Value>> = Mutex::new(Vec::new());

/// What a CONTINUATION observed: the undamaged image of a sync point is opened (in some open mode /
/// configuration), used further (appends only: push / put / write), closed and opened again.
struct Resumed {
    mode: String,
    /// the open mode allows changes
    writable: bool,
    /// the structure hands out record ids
    has_ids: bool,
    /// full logical content right after the first open
    c0: Vec<u8>,
    ids0: Vec<u32>,
    new_ids: Vec<u32>,
    /// len() after the open, after the appends; number of appended elements / records / bytes
    len0: usize,
    len1: usize,
    added: usize,
    /// what was stored before (the records / elements / bytes present at the open), read right after
    /// the open and again after the appends
    old0: Vec<u8>,
    old1: Vec<u8>,
    /// full content of the live object after the appends + sync, and of a second open after closing it
    live: Vec<u8>,
    again: Result<Vec<u8>, String>,
}

trait Subject: Send + Sync {
    fn fam(&self) -> &'static str;
    fn variant(&self) -> String;
    fn name(&self) -> String {
        format!("{}:{}", self.fam(), self.variant())
    }
    fn framing(&self) -> &'static str {
        "header"
    }
    /// block size of the fault model for run `r` of this subject
    fn block_size(&self, r: usize, big: bool) -> usize {
        if big || r % 2 == 1 {
            4096
        } else {
            512
        }
    }
    /// every-byte truncation of every small file at EVERY sync snapshot (directory stores: each record
    /// file is written once, at the sync point of its put)
    fn dense_small_files(&self) -> usize {
        0
    }
    /// perform a seeded history on the real structure inside `rec.live`
    fn drive(&self, rng: &mut Rng, rec: &mut Recorder, big: bool);
    /// open what is in `dir`, read everything readable: Ok((logical content, bytes of the file the reads touch))
    fn reopen(&self, dir: &Path) -> Reopened;
    /// open modes / configurations the continuation cycles through (by snapshot index)
    fn modes(&self) -> Vec<&'static str> {
        vec!["ro"]
    }
    /// continuation on the undamaged image in `dir`; Err = the open itself failed.
    /// Default (read-only structures): open, read everything, open again, read everything.
    fn resume(&self, dir: &Path, mode: &str, _rng: &mut Rng) -> Result<Resumed, String> {
        let c0 = self.reopen(dir)?.0;
        let again = self.reopen(dir).map(|x| x.0);
        Ok(Resumed {
            mode: mode.to_string(),
            writable: false,
            has_ids: false,
            ids0: vec![],
            new_ids: vec![],
            len0: 0,
            len1: 0,
            added: 0,
            old0: c0.clone(),
            old1: c0.clone(),
            live: c0.clone(),
            c0,
            again,
        })
    }
}

fn ids_json(v: &[u32]) -> Value {
    Value::Array(v.iter().map(|&x| json!(x)).collect())
}

fn es<E: std::fmt::Display>(e: E) -> String {
    let mut s = e.to_string();
    s.truncate(160);
    s
}

// ---- MmapVec<T>

trait Elem: Copy + PartialEq + Send + Sync + 'static {
    const NAME: &'static str;
    fn gen(r: &mut Rng) -> Self;
    fn put(&self, out: &mut Vec<u8>);
}
impl Elem for u8 {
    const NAME: &'static str = "u8";
    fn gen(r: &mut Rng) -> u8 {
        (r.next() as u8) | 1
    }
    fn put(&self, out: &mut Vec<u8>) {
        out.push(*self)
    }
}
impl Elem for u32 {
    const NAME: &'static str = "u32";
    fn gen(r: &mut Rng) -> u32 {
        (r.next() as u32) | 1
    }
    fn put(&self, out: &mut Vec<u8>) {
        out.extend_from_slice(&self.to_le_bytes())
    }
}
impl Elem for u64 {
    const NAME: &'static str = "u64";
    fn gen(r: &mut Rng) -> u64 {
        r.next() | 1
    }
    fn put(&self, out: &mut Vec<u8>) {
        out.extend_from_slice(&self.to_le_bytes())
    }
}
impl Elem for [u8; 24] {
    const NAME: &'static str = "b24";
    fn gen(r: &mut Rng) -> [u8; 24] {
        let mut a = [0u8; 24];
        for x in a.iter_mut() {
            *x = (r.next() as u8) | 1;
        }
        a
    }
    fn put(&self, out: &mut Vec<u8>) {
        out.extend_from_slice(self)
    }
}

/// `.1`: MmapVecConfig::sync_on_write (every mutating call rewrites the file)
struct MV<T>(PhantomData<T>, bool);

/// logical content: len(), is_empty() and every element (what the object reports about itself
/// is part of what a reopened object must present again)
fn mv_content<T: Elem>(v: &MmapVec<T>) -> Vec<u8> {
    let mut o = Vec::new();
    o.extend_from_slice(&(v.len() as u64).to_le_bytes());
    o.push(v.is_empty() as u8);
    for x in v.as_slice() {
        x.put(&mut o);
    }
    o
}
fn mv_elems<T: Elem>(v: &MmapVec<T>, n: usize) -> Vec<u8> {
    let mut o = Vec::new();
    for x in v.as_slice().iter().take(n) {
        x.put(&mut o);
    }
    o
}
fn mv_bounds<T: Elem>(v: &MmapVec<T>) -> Vec<usize> {
    let st = v.stats();
    vec![st.header_size, st.header_size + st.len * st.element_size, st.header_size + st.capacity * st.element_size]
}

impl<T: Elem> Subject for MV<T> {
    fn fam(&self) -> &'static str {
        "mmapvec"
    }
    fn variant(&self) -> String {
        if self.1 {
            format!("{}-sow", T::NAME)
        } else {
            T::NAME.to_string()
        }
    }
    fn drive(&self, rng: &mut Rng, rec: &mut Recorder, big: bool) {
        let path = rec.live.join("vec.mmap");
        let c0 = if big { 2048 } else { *rng.pick(&[4usize, 16, 48]) };
        let g = *rng.pick(&[1.5f64, 2.0, 1.618]);
        let cfg = MmapVecConfig::builder()
            .with_initial_capacity(c0)
            .with_growth_factor(g)
            .with_sync_on_write(self.1)
            .with_populate_pages(rng.chance(1, 2))
            .with_huge_pages(rng.chance(1, 3))
            .build();
        let mut v = match MmapVec::<T>::create(&path, cfg.clone()) {
            Ok(v) => v,
            Err(_) => return,
        };
        rec.snap("create", false, Some(mv_content(&v)), mv_bounds(&v));
        let nops = if big { 6 } else { 9 + rng.below(5) as usize };
        let scale = if big { 20000 } else { 40 };
        for phase in 0..2 {
            for i in 0..nops {
                let (name, sync) = match if i == 0 { 1 } else { rng.below(18) } {
                    13 => {
                        // the other write paths: bulk push / bulk pop / range fill / mutable slice
                        let n = rng.range(1, scale) as usize;
                        let items: Vec<T> = (0..n).map(|_| T::gen(rng)).collect();
                        let _ = v.push_bulk_simd(&items);
                        ("push_bulk_simd", false)
                    }
                    14 => {
                        let n = rng.below(v.len() as u64 / 2 + 1) as usize;
                        let _ = v.pop_bulk_simd(n);
                        ("pop_bulk_simd", false)
                    }
                    15 => {
                        let n = v.len();
                        if n > 0 {
                            let a = rng.below(n as u64) as usize;
                            let b = a + rng.below((n - a) as u64 + 1) as usize;
                            let _ = v.fill_range_simd(a..b, T::gen(rng));
                        }
                        ("fill_range_simd", false)
                    }
                    16 => {
                        for x in v.as_mut_slice().iter_mut().step_by(3) {
                            *x = T::gen(rng);
                        }
                        ("as_mut_slice", false)
                    }
                    17 => {
                        // copy the whole content of another (scratch) vector
                        let donor_path = rec.run_dir.join("donor.mmap");
                        if let Ok(mut d) = MmapVec::<T>::create(&donor_path, MmapVecConfig::builder().with_initial_capacity(8).build()) {
                            for _ in 0..rng.range(0, scale / 2) {
                                let _ = d.push(T::gen(rng));
                            }
                            let _ = v.copy_from_simd(&d);
                        }
                        let _ = fs::remove_file(&donor_path);
                        ("copy_from_simd", false)
                    }
                    0 => {
                        // one push per recorded operation: a push that grows the file makes the state
                        // before it durable, which must be an operation boundary of the history
                        let _ = v.push(T::gen(rng));
                        ("push", false)
                    }
                    1 | 2 => {
                        let n = rng.range(1, scale) as usize;
                        let items: Vec<T> = (0..n).map(|_| T::gen(rng)).collect();
                        let _ = v.extend(items);
                        ("extend", false)
                    }
                    3 => {
                        let n = rng.below(v.len() as u64 + 1) as usize;
                        let _ = v.truncate(n);
                        ("truncate", false)
                    }
                    4 => {
                        let n = rng.below(v.len() as u64 + scale / 2) as usize;
                        let _ = v.resize(n, T::gen(rng));
                        ("resize", false)
                    }
                    5 => {
                        for _ in 0..rng.range(1, 6) {
                            let n = v.len() as u64;
                            if n > 0 {
                                let i = rng.below(n) as usize;
                                if let Some(x) = v.get_mut(i) {
                                    *x = T::gen(rng);
                                }
                            }
                        }
                        ("set", false)
                    }
                    6 => {
                        let _ = v.reserve(rng.range(1, scale) as usize);
                        ("reserve", false)
                    }
                    7 => {
                        let _ = v.pop();
                        ("pop", false)
                    }
                    8 => {
                        if rng.chance(1, 3) {
                            let _ = v.clear();
                            ("clear", false)
                        } else {
                            let _ = v.shrink_to_fit();
                            ("shrink_to_fit", false)
                        }
                    }
                    _ => {
                        let ok = v.sync().is_ok();
                        ("sync", ok)
                    }
                };
                // sync_on_write: the state is durable when the file, read back through the public
                // API, holds exactly the live content
                let durable = sync
                    || (self.1
                        && MmapVec::<T>::open(&path, MmapVecConfig::default())
                            .map(|d| mv_content(&d) == mv_content(&v))
                            .unwrap_or(false));
                rec.snap(name, durable, Some(mv_content(&v)), mv_bounds(&v));
            }
            let ok = v.sync().is_ok();
            rec.snap("sync", ok, Some(mv_content(&v)), mv_bounds(&v));
            if phase == 0 {
                // close and open again in this process, continue the history
                drop(v);
                v = match MmapVec::<T>::open(&path, cfg.clone()) {
                    Ok(v) => v,
                    Err(_) => return,
                };
                rec.snap("open", false, Some(mv_content(&v)), mv_bounds(&v));
            }
        }
    }
    fn reopen(&self, dir: &Path) -> Reopened {
        let v = MmapVec::<T>::open(dir.join("vec.mmap"), MmapVecConfig::default()).map_err(es)?;
        let st = v.stats();
        let n = v.len();
        let o = mv_content(&v);
        // a range of the vector compares equal to itself
        if n > 0 && !v.compare_range_simd(0..n, &v).unwrap_or(false) {
            return Err("compare_range_simd(0..len, self) is not true".into());
        }
        // the element API must agree with the slice view at the ends
        if n > 0 {
            let mut a = Vec::new();
            v.get(n - 1).ok_or("get(len-1) = None")?.put(&mut a);
            if a[..] != o[o.len() - a.len()..] {
                return Err("get(len-1) differs from as_slice".into());
            }
        }
        if v.get(n).is_some() {
            return Err("get(len) = Some".into());
        }
        CLAIM.store((st.header_size + st.capacity * st.element_size) as u64, Ordering::SeqCst);
        Ok((o, Some((st.header_size + n * st.element_size) as u64)))
    }
    fn modes(&self) -> Vec<&'static str> {
        vec!["rw", "ro", "large_dataset", "persistent_cache", "ro_builder", "performance_optimized", "memory_optimized", "realtime", "create"]
    }
    fn resume(&self, dir: &Path, mode: &str, rng: &mut Rng) -> Result<Resumed, String> {
        let path = dir.join("vec.mmap");
        let cfg = match mode {
            "ro" => MmapVecConfig::read_only(),
            "ro_builder" => MmapVecConfig::builder().with_read_only(true).build(),
            "large_dataset" => MmapVecConfig::large_dataset(),
            "persistent_cache" => MmapVecConfig::persistent_cache(),
            "performance_optimized" => MmapVecConfig::performance_optimized(),
            "memory_optimized" => MmapVecConfig::memory_optimized(),
            "realtime" => MmapVecConfig::realtime(),
            _ => MmapVecConfig::default(),
        };
        let writable = !cfg.read_only;
        let mut v = if mode == "create" {
            // create-new over the existing file: a new, empty vector
            MmapVec::<T>::create(&path, MmapVecConfig::builder().with_initial_capacity(8).build()).map_err(es)?
        } else {
            MmapVec::<T>::open(&path, cfg).map_err(es)?
        };
        let c0 = mv_content(&v);
        let len0 = v.len();
        let old0 = mv_elems(&v, len0);
        // appends only: what was stored before must keep its place and its bytes
        let mut added = 0usize;
        for _ in 0..rng.range(1, 3) {
            if v.push(T::gen(rng)).is_ok() {
                added += 1;
            }
        }
        // created over an existing file: the second generation stays shorter than the first one
        let many = if mode == "create" { 2 } else { 40 };
        let items: Vec<T> = (0..rng.range(1, many)).map(|_| T::gen(rng)).collect();
        if v.extend(items.clone()).is_ok() {
            added += items.len();
        }
        if v.push_bulk_simd(&items[..items.len() / 2]).is_ok() {
            added += items.len() / 2;
        }
        let target = v.len() + 2;
        if v.resize(target, T::gen(rng)).is_ok() && writable {
            added += 2;
        }
        let _ = v.sync();
        let len1 = v.len();
        let old1 = mv_elems(&v, len0);
        let live = mv_content(&v);
        drop(v);
        let again = MmapVec::<T>::open(&path, MmapVecConfig::default()).map(|w| mv_content(&w)).map_err(es);
        Ok(Resumed { mode: mode.into(), writable, has_ids: false, c0, ids0: vec![], new_ids: vec![], len0, len1, added, old0, old1, live, again })
    }
}

// ---- PlainBlobStore (a directory, one file per record)

struct Plain;

fn store_content<S: BlobStore>(st: &S, ids: Vec<u32>) -> Vec<u8> {
    let mut o = Vec::new();
    o.extend_from_slice(&(st.len() as u64).to_le_bytes());
    for id in ids {
        o.extend_from_slice(&id.to_le_bytes());
        match st.get(id) {
            Ok(d) => {
                o.extend_from_slice(&(d.len() as u64).to_le_bytes());
                o.extend_from_slice(&d);
            }
            Err(_) => o.extend_from_slice(&u64::MAX.to_le_bytes()),
        }
    }
    o
}
/// logical content of a directory store: len(), every id with its record (get), size() and
/// contains() of every id, the batch read twin, and the statistics a reopened store derives
fn plain_content(st: &PlainBlobStore) -> Vec<u8> {
    let ids: Vec<u32> = st.iter_ids().collect();
    let mut o = store_content(st, ids.clone());
    for &id in &ids {
        o.push(st.contains(id) as u8);
        let sz = st.size(id).ok().flatten().map(|x| x as u64).unwrap_or(u64::MAX);
        o.extend_from_slice(&sz.to_le_bytes());
    }
    if let Ok(batch) = st.get_batch(ids.clone()) {
        for r in batch {
            match r {
                Some(d) => o.extend_from_slice(&digest_bytes(&d)),
                None => o.push(0xEE),
            }
        }
    }
    let stt = st.stats();
    o.extend_from_slice(&(stt.blob_count as u64).to_le_bytes());
    o.extend_from_slice(&(stt.total_size as u64).to_le_bytes());
    o
}
fn digest_bytes(d: &[u8]) -> Vec<u8> {
    digest(d).to_string().into_bytes()
}
/// the records of `ids` only (what was stored before a continuation)
fn plain_records(st: &PlainBlobStore, ids: &[u32]) -> Vec<u8> {
    let mut o = Vec::new();
    for &id in ids {
        o.extend_from_slice(&id.to_le_bytes());
        match st.get(id) {
            Ok(d) => {
                o.extend_from_slice(&(d.len() as u64).to_le_bytes());
                o.extend_from_slice(&d);
            }
            Err(_) => o.extend_from_slice(&u64::MAX.to_le_bytes()),
        }
    }
    o
}

impl Subject for Plain {
    fn fam(&self) -> &'static str {
        "plain"
    }
    fn variant(&self) -> String {
        "dir".into()
    }
    fn drive(&self, rng: &mut Rng, rec: &mut Recorder, big: bool) {
        let dir = rec.live.clone();
        let mut st = match PlainBlobStore::new(&dir) {
            Ok(s) => s,
            Err(_) => return,
        };
        rec.snap("new", true, Some(plain_content(&st)), vec![]);
        let sizes: &[usize] = if big { &[0, 1, 700, 5000, 20000, 70000] } else { &[0, 1, 17, 300, 700, 1400, 2100] };
        let mut ids: Vec<u32> = vec![];
        let nops = if big { 8 } else { 8 + rng.below(4) as usize };
        for i in 0..nops {
            // records of length 0 and 1 at the lowest and at the highest id
            let forced = if i == 0 { Some(rng.below(2) as usize) } else if i + 1 == nops || i == nops / 2 { Some(rng.below(2) as usize) } else { None };
            match if forced.is_some() { 0 } else { rng.below(10) } {
                0..=4 => {
                    let n = forced.unwrap_or_else(|| *rng.pick(sizes));
                    let data: Vec<u8> = rng.bytes(n).into_iter().map(|b| b | 1).collect();
                    let r = st.put(&data);
                    if let Ok(id) = r {
                        ids.push(id);
                    }
                    // put fsyncs the record file: a sync point
                    rec.snap("put", r.is_ok(), Some(plain_content(&st)), vec![]);
                }
                5 => {
                    let blobs: Vec<Vec<u8>> = (0..rng.range(1, 3)).map(|_| {
                        let n = *rng.pick(sizes);
                        rng.bytes(n).into_iter().map(|b| b | 1).collect()
                    }).collect();
                    let r = st.put_batch(blobs);
                    if let Ok(v) = &r {
                        ids.extend(v.iter().copied());
                    }
                    rec.snap("put_batch", r.is_ok(), Some(plain_content(&st)), vec![]);
                }
                6 | 7 => {
                    if !ids.is_empty() {
                        let id = ids.remove(rng.below(ids.len() as u64) as usize);
                        let _ = st.remove(id);
                    }
                    rec.snap("remove", false, Some(plain_content(&st)), vec![]);
                }
                8 => {
                    if ids.len() >= 2 {
                        let a = ids.remove(rng.below(ids.len() as u64) as usize);
                        let b = ids.remove(rng.below(ids.len() as u64) as usize);
                        let _ = st.remove_batch(vec![a, b]);
                    }
                    rec.snap("remove_batch", false, Some(plain_content(&st)), vec![]);
                }
                _ => {
                    drop(st);
                    st = match PlainBlobStore::new(&dir) {
                        Ok(s) => s,
                        Err(_) => return,
                    };
                    rec.snap("open", false, Some(plain_content(&st)), vec![]);
                }
            }
        }
    }
    fn reopen(&self, dir: &Path) -> Reopened {
        let st = PlainBlobStore::new(dir).map_err(es)?;
        if st.base_dir() != dir {
            return Err("base_dir() differs from the directory opened".into());
        }
        Ok((plain_content(&st), None))
    }
    fn modes(&self) -> Vec<&'static str> {
        vec!["rw", "rw", "rw", "create"]
    }
    fn dense_small_files(&self) -> usize {
        1500
    }
    fn resume(&self, dir: &Path, mode: &str, rng: &mut Rng) -> Result<Resumed, String> {
        let mut st = if mode == "create" {
            PlainBlobStore::create_new(dir).map_err(es)?
        } else {
            PlainBlobStore::new(dir).map_err(es)?
        };
        let c0 = plain_content(&st);
        let ids0: Vec<u32> = st.iter_ids().collect();
        let len0 = st.len();
        let old0 = plain_records(&st, &ids0);
        let mut new_ids = vec![];
        for i in 0..rng.range(1, 3) {
            let n = if i == 0 { *rng.pick(&[0usize, 1, 5, 300]) } else { rng.range(0, 600) as usize };
            let data: Vec<u8> = rng.bytes(n).into_iter().map(|b| b | 1).collect();
            if let Ok(id) = st.put(&data) {
                new_ids.push(id);
            }
        }
        if let Ok(v) = st.put_batch(vec![vec![7u8; 3], vec![]]) {
            new_ids.extend(v);
        }
        let len1 = st.len();
        let old1 = plain_records(&st, &ids0);
        let live = plain_content(&st);
        drop(st);
        let again = PlainBlobStore::new(dir).map(|s2| plain_content(&s2)).map_err(es);
        Ok(Resumed { mode: mode.into(), writable: true, has_ids: true, c0, ids0, added: new_ids.len(), new_ids, len0, len1, old0, old1, live, again })
    }
}

// ---- ZipOffsetBlobStore (save_to_file / load_from_file)

struct ZipOff(&'static str);

fn zo_content(st: &ZipOffsetBlobStore) -> Vec<u8> {
    store_content(st, (0..st.len() as u32).collect())
}

impl Subject for ZipOff {
    fn fam(&self) -> &'static str {
        "zipoffset"
    }
    fn variant(&self) -> String {
        self.0.into()
    }
    fn drive(&self, rng: &mut Rng, rec: &mut Recorder, _big: bool) {
        let path = rec.live.join("store.zob");
        for _gen in 0..2 {
            let cfg = match self.0 {
                "raw" => ZipOffsetBlobStoreConfig { compress_level: 0, checksum_level: 0, ..Default::default() },
                "crc" => ZipOffsetBlobStoreConfig { compress_level: 0, checksum_level: 2, ..Default::default() },
                "perf" => ZipOffsetBlobStoreConfig::performance_optimized(),
                "comp" => ZipOffsetBlobStoreConfig::compression_optimized(),
                "writer" => ZipOffsetBlobStoreConfig::security_optimized(),
                _ => ZipOffsetBlobStoreConfig::default(),
            };
            let mut b = match ZipOffsetBlobStoreBuilder::with_config(cfg) {
                Ok(b) => b,
                Err(_) => return,
            };
            for _ in 0..rng.range(3, 12) {
                let n = rng.range(0, 400) as usize;
                let _ = b.add_record(&rng.bytes(n));
            }
            let st = match b.finish() {
                Ok(s) => s,
                Err(_) => return,
            };
            let ok = if self.0 == "writer" {
                // the reader/writer twins of save_to_file / load_from_file
                fs::File::create(&path).ok().map(|mut f| st.save_to_writer(&mut f).is_ok()).unwrap_or(false)
            } else {
                st.save_to_file(&path).is_ok()
            };
            rec.snap("save", ok, Some(zo_content(&st)), vec![128]);
        }
    }
    fn reopen(&self, dir: &Path) -> Reopened {
        let p = dir.join("store.zob");
        let mut st = if self.0 == "writer" {
            let mut f = fs::File::open(&p).map_err(es)?;
            ZipOffsetBlobStore::load_from_reader(&mut f).map_err(es)?
        } else {
            ZipOffsetBlobStore::load_from_file(&p).map_err(es)?
        };
        st.enable_offset_cache();
        Ok((zo_content(&st), None))
    }
}

// ---- ZReorderMap

struct Reorder(&'static str);

fn reorder_content(path: &Path, sign: i64) -> Reopened {
    let mut m = ZReorderMap::open(path).map_err(es)?;
    let mut o = Vec::new();
    let size = m.size();
    o.extend_from_slice(&(size as u64).to_le_bytes());
    let mut n = 0u64;
    // projection of the output: its last maximal run of consecutive values (start, len)
    let (mut rs, mut rl, mut prev) = (0u64, 0u64, 0u64);
    while !m.eof() {
        // position and value as reported before advancing
        o.extend_from_slice(&(m.index() as u64).to_le_bytes());
        o.extend_from_slice(&(m.current() as u64).to_le_bytes());
        let v = match m.next() {
            Some(v) => v as u64,
            None => break,
        };
        o.extend_from_slice(&v.to_le_bytes());
        if rl > 0 && v as i64 == prev as i64 + sign {
            rl += 1;
        } else {
            rs = v;
            rl = 1;
        }
        prev = v;
        n += 1;
        if n > (1 << 22) {
            return Err("more than 2^22 values".into());
        }
    }
    // everything the reader reports about itself is part of the content
    o.extend_from_slice(&n.to_le_bytes());
    o.push(m.eof() as u8);
    // rewind and read everything a second time
    match m.rewind() {
        Ok(()) => {
            o.extend_from_slice(&(m.len() as u64).to_le_bytes());
            let mut k = 0u64;
            while let Some(v) = m.next() {
                o.extend_from_slice(&(v as u64).to_le_bytes());
                k += 1;
                if k > (1 << 22) {
                    break;
                }
            }
        }
        Err(_) => o.push(0xEE),
    }
    TAIL[0].store(rs, Ordering::SeqCst);
    TAIL[1].store(rl, Ordering::SeqCst);
    Ok((o, None))
}

impl Subject for Reorder {
    fn fam(&self) -> &'static str {
        "reorder"
    }
    fn variant(&self) -> String {
        self.0.into()
    }
    fn block_size(&self, r: usize, big: bool) -> usize {
        // 16-byte blocks: block 0 is exactly the header; 512 / 4096: header + the first records
        if big {
            4096
        } else if r % 2 == 0 {
            16
        } else {
            512
        }
    }
    fn drive(&self, rng: &mut Rng, rec: &mut Recorder, _big: bool) {
        let path = rec.live.join("reorder.map");
        let sign: i64 = if self.0 == "desc" { -1 } else { 1 };
        // Every generation REWRITES the same file in place.  All generations of a run start with
        // the same number of single-value records, enough to fill the first block, so that a
        // mixture of old and new blocks stays aligned with the record boundaries; behind them come
        // several multi-element runs of different lengths (and a few single values), and the
        // generations differ in length (longer / shorter) and run structure.
        let prefix = match rec.bs {
            16 => rng.below(3) as usize,
            512 => 100 + rng.below(4) as usize,
            _ => 816 + rng.below(6) as usize,
        };
        let plan = [3usize, 6, 2, 5];
        for (g, &nruns) in plan.iter().enumerate() {
            let mut recs: Vec<(i64, usize)> = vec![];
            for _ in 0..prefix {
                recs.push((rng.below(1 << 20) as i64 + (1 << 20), 1));
            }
            for i in 0..nruns + rng.below(2) as usize {
                let len = match if i == 0 { 2 } else { rng.below(5) } {
                    0 => 1,
                    1 => rng.range(2, 6),
                    2 | 3 => rng.range(7, 40),
                    _ => rng.range(41, 300),
                } as usize;
                recs.push((rng.below(1 << 20) as i64 + (1 << 20), len));
            }
            if g == 3 {
                // same element count as the previous generation would be luck; a final long run
                // makes this one the longest of the run
                recs.push((rng.below(1 << 20) as i64 + (1 << 20), rng.range(300, 700) as usize));
            }
            let n: usize = recs.iter().map(|r| r.1).sum();
            let mut b = match ZReorderMapBuilder::new(&path, n, sign) {
                Ok(b) => b,
                Err(_) => return,
            };
            rec.snap("builder", false, None, vec![16]);
            let mut pushed = 0usize;
            for &(start, len) in &recs {
                if len > 1 {
                    rec.wruns.push(json!([start, len]));
                }
                for i in 0..len {
                    let _ = b.push((start + sign * i as i64) as usize);
                    pushed += 1;
                    if pushed % 500 == 0 {
                        rec.snap("push", false, None, vec![16]);
                    }
                }
            }
            let ok = b.finish().is_ok();
            let c = reorder_content(&path, sign).ok().map(|x| x.0);
            rec.snap("finish", ok, c, vec![16]);
        }
    }
    fn reopen(&self, dir: &Path) -> Reopened {
        let sign: i64 = if self.0 == "desc" { -1 } else { 1 };
        reorder_content(&dir.join("reorder.map"), sign)
    }
}

// ---- io::mmap raw transports

struct IoMmap(&'static str);

fn mmi_read_all(path: &Path) -> Reopened {
    let mut r = MemoryMappedInput::from_path(path).map_err(es)?;
    let n = r.len();
    let mut o = Vec::with_capacity(n);
    while r.remaining() > 0 {
        let c = r.remaining().min(777);
        let d = r.read_slice(c).map_err(es)?;
        o.extend_from_slice(&d);
    }
    if r.read_u8().is_ok() {
        return Err("read_u8 beyond the end succeeded".into());
    }
    Ok((o, Some(n as u64)))
}
/// sequential hint + zero-copy reads (the buffered strategy of small files offers none: plain read)
fn mmi_read_zero_copy(path: &Path) -> Reopened {
    let mut r = MemoryMappedInput::from_path_with_pattern(path, AccessPattern::Sequential).map_err(es)?;
    let n = r.len();
    let mut o = Vec::with_capacity(n);
    while r.remaining() > 0 {
        let c = r.remaining().min(1000);
        let zc = r.read_slice_zero_copy(c).map(|s| s.to_vec());
        match zc {
            Ok(d) => o.extend_from_slice(&d),
            Err(_) => o.extend_from_slice(&r.read_slice(c).map_err(es)?),
        }
    }
    if r.read_slice_zero_copy(1).is_ok() || r.read_u8().is_ok() {
        return Err("read beyond the end succeeded".into());
    }
    Ok((o, Some(n as u64)))
}
/// random-access hint, peek + seek (peek is not offered by the buffered strategy: plain read)
fn mmi_read_peek(path: &Path) -> Reopened {
    let f = fs::File::open(path).map_err(es)?;
    let mut r = MemoryMappedInput::new_with_pattern(f, AccessPattern::Random).map_err(es)?;
    let _ = r.strategy();
    let n = r.len();
    let mut o = Vec::with_capacity(n);
    while r.remaining() > 0 {
        let c = r.remaining().min(613);
        match r.peek_slice(c) {
            Ok(d) => {
                let z = r.peek_slice_zero_copy(c).map(|s| s.to_vec()).map_err(es)?;
                if z != d {
                    return Err("peek_slice and peek_slice_zero_copy differ".into());
                }
                let pos = r.position();
                r.seek(pos + c).map_err(es)?;
                o.extend_from_slice(&d);
            }
            Err(_) => o.extend_from_slice(&r.read_slice(c).map_err(es)?),
        }
    }
    if r.seek(n + 1).is_ok() || r.peek_slice(1).is_ok() {
        return Err("seek / peek beyond the end succeeded".into());
    }
    Ok((o, Some(n as u64)))
}
fn mdi_read_all(path: &Path) -> Reopened {
    let mut r = MmapDataInput::open(path).map_err(es)?;
    let n = r.len();
    let mut o = vec![0u8; n];
    let (a, b) = o.split_at_mut(n / 2);
    r.read_bytes(a).map_err(es)?;
    r.read_bytes(b).map_err(es)?;
    if r.read_u8().is_ok() {
        return Err("read_u8 beyond the end succeeded".into());
    }
    Ok((o, Some(n as u64)))
}

impl Subject for IoMmap {
    fn fam(&self) -> &'static str {
        "iommap"
    }
    fn variant(&self) -> String {
        self.0.into()
    }
    fn framing(&self) -> &'static str {
        "raw"
    }
    fn drive(&self, rng: &mut Rng, rec: &mut Recorder, big: bool) {
        let path = rec.live.join("stream.bin");
        let chunk = if big { 300_000 } else { 900 };
        if self.0.starts_with("mmo") {
            let mut out = match MemoryMappedOutput::create(&path, rng.range(16, 2048) as usize) {
                Ok(o) => o,
                Err(_) => return,
            };
            rec.snap("create", false, self.read(&path).ok().map(|x| x.0), vec![]);
            for _ in 0..(6 + rng.below(4)) {
                match rng.below(6) {
                    0..=2 => {
                        let n = rng.range(1, chunk) as usize;
                        let d: Vec<u8> = rng.bytes(n).into_iter().map(|b| b | 1).collect();
                        let _ = out.write_slice(&d);
                        let pos = out.position();
                        rec.snap("write", false, self.read(&path).ok().map(|x| x.0), vec![pos]);
                    }
                    3 => {
                        let _ = out.write_u32(rng.next() as u32 | 1);
                        let _ = out.write_length_prefixed_string("zipora");
                        let pos = out.position();
                        rec.snap("write", false, self.read(&path).ok().map(|x| x.0), vec![pos]);
                    }
                    4 => {
                        let ok = out.flush().is_ok();
                        let pos = out.position();
                        rec.snap("flush", ok, self.read(&path).ok().map(|x| x.0), vec![pos]);
                    }
                    _ => {
                        let ok = out.truncate().is_ok();
                        rec.snap("truncate", ok, self.read(&path).ok().map(|x| x.0), vec![]);
                    }
                }
            }
            let ok = out.truncate().is_ok() && out.flush().is_ok();
            rec.snap("finish", ok, self.read(&path).ok().map(|x| x.0), vec![]);
        } else {
            let mut out = match FileDataOutput::create(&path) {
                Ok(o) => o,
                Err(_) => return,
            };
            rec.snap("create", false, self.read(&path).ok().map(|x| x.0), vec![]);
            for _ in 0..(6 + rng.below(4)) {
                match rng.below(5) {
                    0..=2 => {
                        let n = rng.range(1, chunk) as usize;
                        let d: Vec<u8> = rng.bytes(n).into_iter().map(|b| b | 1).collect();
                        let _ = out.write_bytes(&d);
                        rec.snap("write", false, self.read(&path).ok().map(|x| x.0), vec![]);
                    }
                    3 => {
                        let _ = out.write_u64(rng.next() | 1);
                        let _ = out.write_var_int(rng.next() >> 20);
                        rec.snap("write", false, self.read(&path).ok().map(|x| x.0), vec![]);
                    }
                    _ => {
                        let ok = DataOutput::flush(&mut out).is_ok() && out.sync_all().is_ok();
                        rec.snap("sync", ok, self.read(&path).ok().map(|x| x.0), vec![]);
                    }
                }
            }
            let ok = DataOutput::flush(&mut out).is_ok() && out.sync_all().is_ok();
            rec.snap("finish", ok, self.read(&path).ok().map(|x| x.0), vec![]);
        }
    }
    fn reopen(&self, dir: &Path) -> Reopened {
        self.read(&dir.join("stream.bin"))
    }
    fn modes(&self) -> Vec<&'static str> {
        vec!["append", "regen", "scripts"]
    }
    /// open the synced file for writing again, append at its end, flush, read back, reopen
    fn resume(&self, dir: &Path, mode: &str, rng: &mut Rng) -> Result<Resumed, String> {
        let path = dir.join("stream.bin");
        // every continuation also runs one create-over-existing scenario
        *REGEN.lock().unwrap() = Some(self.regen(dir, rng));
        // access scripts on files on both sides of the strategy thresholds (the 1 MiB ones every third time)
        self.scripts(dir, rng, mode != "append");
        let c0 = self.read(&path)?.0;
        let len0 = c0.len();
        let mut added = 0usize;
        let chunks: Vec<Vec<u8>> = (0..rng.range(1, 3)).map(|_| {
            let n = rng.range(1, 3000) as usize;
            rng.bytes(n).into_iter().map(|b| b | 1).collect()
        }).collect();
        let live;
        if self.0.starts_with("mmo") {
            let mut out = MemoryMappedOutput::open(&path).map_err(es)?;
            let end = out.capacity();
            out.seek(end).map_err(es)?;
            for c in &chunks {
                if out.write_slice(c).is_ok() {
                    added += c.len();
                }
            }
            let _ = out.truncate();
            let _ = out.flush();
            live = self.read(&path).map(|x| x.0).unwrap_or_default();
        } else {
            let mut out = zipora::io::to_file_append(&path).map_err(es)?;
            for c in &chunks {
                if out.write_bytes(c).is_ok() {
                    added += c.len();
                }
            }
            let _ = DataOutput::flush(&mut out);
            let _ = out.sync_all();
            if out.bytes_written() != (len0 + added) as u64 {
                return Err("bytes_written() of the appending writer differs from the file length".into());
            }
            live = self.read(&path).map(|x| x.0).unwrap_or_default();
        }
        let again = self.read(&path).map(|x| x.0);
        let old1 = live.get(..len0.min(live.len())).unwrap_or(&[]).to_vec();
        Ok(Resumed { mode: mode.into(), writable: true, has_ids: false, old0: c0.clone(), c0, ids0: vec![], new_ids: vec![],
            len0, len1: live.len(), added, old1, live, again })
    }
}

/// byte at offset i of a pattern file (the same formula is in DurableFile.tla: PatByte)
fn pat_byte(seed: u64, i: u64) -> u8 {
    ((i * 7 + (i / 256) * 13 + seed) % 251) as u8
}

/// uniform view of a file-backed input for the access scripts; every method is a call-through
trait Rd {
    fn read(&mut self, n: usize) -> Option<Vec<u8>>;
    fn skip(&mut self, n: usize) -> bool;
    /// None = the type offers no seek
    fn seek(&mut self, _a: usize) -> Option<bool> {
        None
    }
    fn pos(&self) -> i64;
    fn rem(&self) -> i64;
}
fn di_read<D: DataInput>(d: &mut D, n: usize) -> Option<Vec<u8>> {
    // the typed readers for their widths, the byte reader otherwise
    match n {
        1 => d.read_u8().ok().map(|x| vec![x]),
        2 => d.read_u16().ok().map(|x| x.to_le_bytes().to_vec()),
        4 => d.read_u32().ok().map(|x| x.to_le_bytes().to_vec()),
        8 => d.read_u64().ok().map(|x| x.to_le_bytes().to_vec()),
        _ => {
            let mut b = vec![0u8; n];
            d.read_bytes(&mut b).ok().map(|_| b)
        }
    }
}
impl Rd for MemoryMappedInput {
    fn read(&mut self, n: usize) -> Option<Vec<u8>> {
        if n == 3 {
            self.read_slice(3).ok()
        } else {
            di_read(self, n)
        }
    }
    fn skip(&mut self, n: usize) -> bool {
        DataInput::skip(self, n).is_ok()
    }
    fn seek(&mut self, a: usize) -> Option<bool> {
        Some(MemoryMappedInput::seek(self, a).is_ok())
    }
    fn pos(&self) -> i64 {
        self.position() as i64
    }
    fn rem(&self) -> i64 {
        self.remaining() as i64
    }
}
impl Rd for MmapDataInput {
    fn read(&mut self, n: usize) -> Option<Vec<u8>> {
        di_read(self, n)
    }
    fn skip(&mut self, n: usize) -> bool {
        DataInput::skip(self, n).is_ok()
    }
    fn pos(&self) -> i64 {
        self.pos() as i64
    }
    fn rem(&self) -> i64 {
        self.remaining() as i64
    }
}
impl Rd for zipora::io::ReaderDataInput<fs::File> {
    fn read(&mut self, n: usize) -> Option<Vec<u8>> {
        di_read(self, n)
    }
    fn skip(&mut self, n: usize) -> bool {
        DataInput::skip(self, n).is_ok()
    }
    fn pos(&self) -> i64 {
        self.pos() as i64
    }
    fn rem(&self) -> i64 {
        -1
    }
}
impl Rd for zipora::io::RangeReader<fs::File> {
    fn read(&mut self, n: usize) -> Option<Vec<u8>> {
        di_read(self, n)
    }
    fn skip(&mut self, n: usize) -> bool {
        DataInput::skip(self, n).is_ok()
    }
    fn seek(&mut self, a: usize) -> Option<bool> {
        Some(self.seek_in_range(a as u64).is_ok())
    }
    fn pos(&self) -> i64 {
        (self.current_position() - self.start_position()) as i64
    }
    fn rem(&self) -> i64 {
        self.remaining() as i64
    }
}
impl Rd for zipora::io::MmapZeroCopyReader {
    fn read(&mut self, n: usize) -> Option<Vec<u8>> {
        use zipora::io::ZeroCopyRead;
        let v = self.zc_read(n).ok().flatten().map(|s| s.to_vec())?;
        self.zc_advance(n).ok()?;
        Some(v)
    }
    fn skip(&mut self, n: usize) -> bool {
        use zipora::io::ZeroCopyRead;
        self.zc_advance(n).is_ok()
    }
    fn seek(&mut self, a: usize) -> Option<bool> {
        Some(self.set_position(a).is_ok())
    }
    fn pos(&self) -> i64 {
        self.position() as i64
    }
    fn rem(&self) -> i64 {
        use zipora::io::ZeroCopyRead;
        self.zc_available() as i64
    }
}

impl IoMmap {
    /// the readers this variant opens a file with: (name, offset of the view inside the file, length of the view)
    fn readers(&self, path: &Path, size: usize) -> Vec<(String, usize, usize, Box<dyn Rd>)> {
        let mut v: Vec<(String, usize, usize, Box<dyn Rd>)> = vec![];
        let file = || fs::File::open(path).ok();
        match self.0 {
            "mmo" => {
                if let Ok(r) = MemoryMappedInput::from_path(path) {
                    v.push(("mmi".into(), 0, size, Box::new(r)));
                }
            }
            "mmo-zc" => {
                if let Ok(r) = MemoryMappedInput::from_path_with_pattern(path, AccessPattern::Sequential) {
                    v.push(("mmi-seq".into(), 0, size, Box::new(r)));
                }
                if let Some(Ok(r)) = file().map(|f| MemoryMappedInput::new_with_pattern(f, AccessPattern::Mixed)) {
                    v.push(("mmi-mixed".into(), 0, size, Box::new(r)));
                }
            }
            "mmo-peek" => {
                if let Some(Ok(r)) = file().map(|f| MemoryMappedInput::new_with_pattern(f, AccessPattern::Random)) {
                    v.push(("mmi-rand".into(), 0, size, Box::new(r)));
                }
                if let Some(Ok(r)) = file().map(MemoryMappedInput::new) {
                    v.push(("mmi-new".into(), 0, size, Box::new(r)));
                }
            }
            _ => {
                if let Ok(r) = MmapDataInput::open(path) {
                    v.push(("mdi".into(), 0, size, Box::new(r)));
                }
                if let Some(f) = file() {
                    v.push(("rdi-file".into(), 0, size, Box::new(zipora::io::from_reader(f))));
                }
                if let Some(Ok(r)) = file().map(|f| zipora::io::RangeReader::new_and_seek(f, 0, size as u64)) {
                    v.push(("range-all".into(), 0, size, Box::new(r)));
                }
                if size >= 8 {
                    if let Some(Ok(r)) = file().map(|f| zipora::io::RangeReader::new_and_seek(f, 3, size as u64 - 5)) {
                        v.push(("range-sub".into(), 3, size - 5, Box::new(r)));
                    }
                }
                if let Some(Ok(r)) = file().map(zipora::io::MmapZeroCopyReader::new) {
                    v.push(("zc-mmap".into(), 0, size, Box::new(r)));
                }
            }
        }
        v
    }

    /// ACCESS SCRIPTS: a pattern file of a given size is read back through every reader of this variant
    /// in several ways (sequential; skip first; seek + skip; first and last byte; alternating read / skip;
    /// skip(0); skip to exactly the end, then a read and a skip that must be refused).  Every step logs
    /// what was asked, what came back and position / remaining afterwards; TLC replays the script on the
    /// abstract position and the pattern formula.
    fn scripts(&self, dir: &Path, rng: &mut Rng, large: bool) {
        let path = dir.join("pattern.bin");
        let mut sizes: Vec<usize> = vec![0, 1, 7, 4095, 4096, 4097];
        if large {
            sizes.push((1 << 20) - 1);
            sizes.push(1 << 20);
        }
        for size in sizes {
            let seed = rng.below(200);
            let bytes: Vec<u8> = (0..size as u64).map(|i| pat_byte(seed, i)).collect();
            if fs::write(&path, &bytes).is_err() {
                continue;
            }
            for script in 0..7usize {
                let k = rng.below(size as u64 + 1) as usize;
                let nreaders = self.readers(&path, size).len();
                for ri in 0..nreaders {
                    let mut rs = self.readers(&path, size);
                    let (name, base, vsize, mut r) = rs.swap_remove(ri);
                    // the requests of the script, as a function of the view size
                    let mut req: Vec<(&str, usize)> = vec![];
                    match script {
                        0 => {
                            for n in [8usize, 3, 4, 2, 1, 5] {
                                req.push(("read", n));
                            }
                        }
                        1 => {
                            req.push(("skip", k.min(vsize)));
                            req.push(("read", 4));
                            req.push(("read", 1));
                        }
                        2 => {
                            let a = if vsize > 0 { rng.below(vsize as u64) as usize } else { 0 };
                            let b = rng.below((vsize - a) as u64 + 1) as usize;
                            req.push(("seek", a));
                            req.push(("skip", b));
                            req.push(("read", 2));
                            req.push(("seek", a / 2));
                            req.push(("read", 1));
                        }
                        3 => {
                            req.push(("read", 1));
                            req.push(("skip", vsize.saturating_sub(2)));
                            req.push(("read", 1));
                            req.push(("read", 1));
                        }
                        4 => {
                            for _ in 0..6 {
                                req.push(("read", 1));
                                req.push(("skip", 1));
                            }
                        }
                        5 => {
                            req.push(("skip", 0));
                            req.push(("read", 2));
                            req.push(("skip", 0));
                            req.push(("read", 8));
                        }
                        _ => {
                            req.push(("skip", vsize));
                            req.push(("read", 1));
                            req.push(("skip", 1));
                        }
                    }
                    let mut steps: Vec<Value> = vec![];
                    let mut unsupported = false;
                    for (a, n) in req {
                        let (ok, val) = match a {
                            "read" => match r.read(n) {
                                Some(v) => (true, v),
                                None => (false, vec![]),
                            },
                            "skip" => (r.skip(n), vec![]),
                            _ => match r.seek(n) {
                                Some(ok) => (ok, vec![]),
                                None => {
                                    unsupported = true;
                                    break;
                                }
                            },
                        };
                        steps.push(json!({"a": a, "n": n, "ok": ok, "val": bytes_json(&val), "pos": r.pos(), "rem": r.rem()}));
                        if !ok {
                            // after a refusal the state of a streaming reader is not defined: the script ends
                            break;
                        }
                    }
                    if unsupported {
                        continue;
                    }
                    SCRIPTS.lock().unwrap().push(json!({"reader": name, "size": vsize, "base": base, "seed": seed,
                        "fsize": size, "script": script, "steps": steps}));
                }
            }
        }
        let _ = fs::remove_file(&path);
    }

    /// A file is CREATED OVER AN EXISTING ONE: generation 1 is a longer file full of 0xAA, generation 2
    /// is created at the same path with a smaller initial size, writes little (seeks leave gaps, the
    /// final truncate() is optional) and is read back through the reader of this variant.  The event
    /// lists what generation 2 was asked to do; TLC computes what the file must hold.
    fn regen(&self, dir: &Path, rng: &mut Rng) -> Value {
        let path = dir.join("regen.bin");
        let n1 = rng.range(300, 5000) as usize;
        let mut writes: Vec<Value> = vec![];
        let (api, cap, truncated, pos);
        if self.0.starts_with("mmo") {
            api = "mmo";
            if let Ok(mut o) = MemoryMappedOutput::create(&path, 16) {
                let _ = o.write_slice(&vec![0xAAu8; n1]);
                let _ = o.truncate();
                let _ = o.flush();
            }
            let c = rng.range(24, 160) as usize;
            cap = c;
            let mut tr = false;
            let mut p = 0usize;
            if let Ok(mut o) = MemoryMappedOutput::create(&path, c) {
                for _ in 0..rng.range(1, 4) {
                    // seek somewhere (possibly backwards, possibly leaving a gap), write a little, never beyond the capacity
                    let at = rng.below(c as u64 - 8) as usize;
                    if o.seek(at).is_err() {
                        continue;
                    }
                    let n = rng.range(1, (c - at).min(9) as u64) as usize;
                    let d: Vec<u8> = rng.bytes(n).into_iter().map(|b| b | 1).collect();
                    if o.write_slice(&d).is_ok() {
                        writes.push(json!({"off": at, "data": bytes_json(&d)}));
                    }
                }
                if rng.chance(1, 2) {
                    tr = o.truncate().is_ok();
                }
                let _ = o.flush();
                p = o.position();
            }
            truncated = tr;
            pos = p;
        } else {
            api = "fdo";
            if let Ok(mut o) = zipora::io::to_file(&path) {
                let _ = o.write_bytes(&vec![0xAAu8; n1]);
                let _ = DataOutput::flush(&mut o);
                let _ = o.sync_all();
            }
            let mut p = 0usize;
            if let Ok(mut o) = zipora::io::to_file(&path) {
                for _ in 0..rng.range(0, 3) {
                    let n = rng.range(1, 12) as usize;
                    let d: Vec<u8> = rng.bytes(n).into_iter().map(|b| b | 1).collect();
                    if o.write_bytes(&d).is_ok() {
                        writes.push(json!({"off": p, "data": bytes_json(&d)}));
                        p += n;
                    }
                }
                let _ = DataOutput::flush(&mut o);
                let _ = o.sync_all();
            }
            // a sequential writer: the file ends where the writer stopped
            cap = p;
            truncated = true;
            pos = p;
        }
        let got = self.read(&path);
        let _ = fs::remove_file(&path);
        json!({"api": api, "gen1": n1, "cap": cap, "truncated": truncated, "pos": pos, "writes": writes,
            "open": if got.is_ok() { "ok" } else { "err" },
            "got": bytes_json(&got.as_ref().map(|x| x.0.clone()).unwrap_or_default()),
            "msg": got.err().unwrap_or_default()})
    }
    fn read(&self, p: &Path) -> Reopened {
        match self.0 {
            "mmo" => mmi_read_all(p),
            "mmo-zc" => mmi_read_zero_copy(p),
            "mmo-peek" => mmi_read_peek(p),
            _ => mdi_read_all(p),
        }
    }
}

// ---- SuffixArrayDictionary (DictZip dictionary files)

/// variants: "sadict" save_to_file / load_from_file, "serde" serialize / deserialize through a file,
/// "store" DictZipBlobStore::save_dictionary / from_dictionary_file / load_dictionary
struct DzDict(&'static str);

/// logical content of a dictionary: its text, its pattern-length configuration and what it answers
/// (longest match / all matches of probes cut from its own text and of a foreign string)
fn dict_content(d: &mut SuffixArrayDictionary) -> Vec<u8> {
    let mut o = Vec::new();
    o.extend_from_slice(&(d.dictionary_size() as u64).to_le_bytes());
    o.extend_from_slice(&(d.config().min_pattern_length as u64).to_le_bytes());
    o.extend_from_slice(&(d.config().max_pattern_length as u64).to_le_bytes());
    o.push(d.is_external_mode() as u8);
    let text = d.dictionary_text().to_vec();
    o.extend_from_slice(&text);
    let mut probes: Vec<Vec<u8>> = vec![b"#### no such text ####".to_vec()];
    for i in 0..6usize {
        let a = (i * 131) % text.len().max(1);
        let e = (a + 5 + 3 * i).min(text.len());
        probes.push(text[a..e].to_vec());
    }
    for p in &probes {
        match d.find_longest_match(p, 0, 64) {
            Ok(Some(m)) => {
                // the matched text is the answer (the position in the dictionary may be any occurrence)
                o.push(1);
                o.extend_from_slice(&(m.length as u64).to_le_bytes());
                let e = (m.dict_position + m.length).min(text.len());
                o.extend_from_slice(text.get(m.dict_position.min(e)..e).unwrap_or(&[]));
            }
            Ok(None) => o.push(0),
            Err(_) => o.push(2),
        }
        match d.find_all_matches(p, 1000) {
            Ok(v) => o.extend_from_slice(&(v.len() as u64).to_le_bytes()),
            Err(_) => o.push(2),
        }
    }
    o
}

fn dz_cfg() -> zipora::blob_store::DictZipConfig {
    use zipora::compression::dict_zip::DictionaryBuilderConfig;
    zipora::blob_store::DictZipConfig {
        dict_builder_config: DictionaryBuilderConfig { target_dict_size: 4096, max_dict_size: 16384, validate_result: false, ..Default::default() },
        min_compression_size: 10,
        ..Default::default()
    }
}
/// content of a DictZipBlobStore built around a dictionary file: what it returns for probe records
fn dzstore_content(st: &mut zipora::blob_store::DictZipBlobStore) -> Vec<u8> {
    let mut o = Vec::new();
    let probes: [&[u8]; 4] = [b"", b"x", b"the quick brown fox jumps over the lazy dog, the quick brown fox", &[7u8; 300]];
    for p in probes {
        match st.put(p) {
            Ok(id) => match st.get(id) {
                Ok(d) => {
                    o.push(1);
                    o.extend_from_slice(&(d.len() as u64).to_le_bytes());
                    o.extend_from_slice(&d);
                }
                Err(_) => o.push(2),
            },
            Err(_) => o.push(3),
        }
    }
    o.extend_from_slice(&(st.len() as u64).to_le_bytes());
    o
}

fn dzstore_read(p: &Path) -> Reopened {
    let mut st = zipora::blob_store::DictZipBlobStore::from_dictionary_file(p, dz_cfg()).map_err(es)?;
    let mut o = dzstore_content(&mut st);
    // replacing the dictionary of a live store by the same file: an empty store that answers alike
    st.load_dictionary(p).map_err(es)?;
    o.extend_from_slice(&dzstore_content(&mut st));
    Ok((o, None))
}

impl Subject for DzDict {
    fn fam(&self) -> &'static str {
        "dzdict"
    }
    fn variant(&self) -> String {
        self.0.into()
    }
    fn drive(&self, rng: &mut Rng, rec: &mut Recorder, _big: bool) {
        let path = rec.live.join("dict.bin");
        let words: Vec<Vec<u8>> = (0..12).map(|_| {
            let n = rng.range(3, 9) as usize;
            rng.bytes(n).into_iter().map(|b| b'a' + b % 26).collect()
        }).collect();
        // generations of the same length: a rewrite then changes blocks, not the layout
        let tlen = rng.range(300, 1100) as usize;
        let min_pat = 3 + rng.below(2) as usize;
        for gen in 0..3 {
            // the first generation is the longest: later ones are saved over a longer file
            let tlen = if gen == 0 { tlen * 2 } else { tlen };
            let mut train = Vec::new();
            while train.len() < tlen {
                let w = rng.below(words.len() as u64) as usize;
                train.extend_from_slice(&words[w]);
                train.push(b' ');
            }
            train.truncate(tlen);
            if self.0 == "store" {
                let mut b = match zipora::blob_store::DictZipBlobStoreBuilder::with_config(dz_cfg()) {
                    Ok(b) => b,
                    Err(_) => return,
                };
                for ch in train.chunks(97) {
                    let _ = b.add_training_sample(ch);
                }
                let mut st = match b.finish() {
                    Ok(s) => s,
                    Err(_) => return,
                };
                let ok = st.save_dictionary(&path).is_ok();
                // what a store around this dictionary file answers (read back through the public API)
                let c = dzstore_read(&path).ok().map(|x| x.0);
                let _ = dzstore_content(&mut st);
                rec.snap("save_dictionary", ok && c.is_some(), c, vec![8]);
                continue;
            }
            let cfg = SuffixArrayDictionaryConfig {
                min_frequency: 2,
                max_bfs_depth: 3,
                max_cache_states: 256,
                use_memory_pool: false,
                min_pattern_length: min_pat,
                ..Default::default()
            };
            let mut d = match SuffixArrayDictionary::new(&train, cfg) {
                Ok(d) => d,
                Err(_) => return,
            };
            let ok = if self.0 == "serde" {
                d.serialize().ok().map(|b| fs::write(&path, b).is_ok()).unwrap_or(false)
            } else {
                d.save_to_file(&path).is_ok()
            };
            rec.snap("save", ok, Some(dict_content(&mut d)), vec![8]);
        }
    }
    fn reopen(&self, dir: &Path) -> Reopened {
        let p = dir.join("dict.bin");
        match self.0 {
            "store" => dzstore_read(&p),
            "serde" => {
                let bytes = fs::read(&p).map_err(es)?;
                let mut d = SuffixArrayDictionary::deserialize(&bytes).map_err(es)?;
                Ok((dict_content(&mut d), None))
            }
            _ => {
                let mut d = SuffixArrayDictionary::load_from_file(&p).map_err(es)?;
                Ok((dict_content(&mut d), None))
            }
        }
    }
}

fn subjects() -> Vec<Box<dyn Subject>> {
    vec![
        Box::new(MV::<u8>(PhantomData, false)),
        Box::new(MV::<u32>(PhantomData, false)),
        Box::new(MV::<u32>(PhantomData, true)),
        Box::new(MV::<u64>(PhantomData, false)),
        Box::new(MV::<[u8; 24]>(PhantomData, false)),
        Box::new(Plain),
        Box::new(ZipOff("raw")),
        Box::new(ZipOff("crc")),
        Box::new(ZipOff("zstd")),
        Box::new(ZipOff("perf")),
        Box::new(ZipOff("comp")),
        Box::new(ZipOff("writer")),
        Box::new(Reorder("asc")),
        Box::new(Reorder("desc")),
        Box::new(IoMmap("mmo")),
        Box::new(IoMmap("mmo-zc")),
        Box::new(IoMmap("mmo-peek")),
        Box::new(IoMmap("fdo")),
        Box::new(DzDict("sadict")),
        Box::new(DzDict("serde")),
        Box::new(DzDict("store")),
    ]
}

fn subject_by_name(n: &str) -> Box<dyn Subject> {
    subjects().into_iter().find(|s| s.name() == n).unwrap_or_else(|| {
        eprintln!("c19: unknown subject {n}");
        std::process::exit(2)
    })
}

// ---------------------------------------------------------------- images (materialisation)

/// blocks of `new` (inside its length) that differ from `old` (absent bytes = zeros), ascending
fn changed_blocks(old: &[u8], new: &[u8], bs: usize) -> Vec<usize> {
    let nb = (new.len() + bs - 1) / bs;
    let mut c = vec![];
    for b in 0..nb {
        let lo = b * bs;
        let hi = (lo + bs).min(new.len());
        let differs = (lo..hi).any(|p| new[p] != old.get(p).copied().unwrap_or(0));
        if differs {
            c.push(b);
        }
    }
    c
}

/// the image in which exactly the blocks in `s` carry the new bytes, byte length `len`
fn mix(old: &[u8], new: &[u8], s: &[usize], len: usize, bs: usize) -> Vec<u8> {
    let nb = (len + bs - 1) / bs;
    let mut take = vec![false; nb + 1];
    for &b in s {
        if b < take.len() {
            take[b] = true;
        }
    }
    (0..len)
        .map(|p| {
            let src = if take[p / bs] { new } else { old };
            src.get(p).copied().unwrap_or(0)
        })
        .collect()
}

fn materialise(kind: &str, j: usize, len: usize, old: &[u8], new: &[u8], bs: usize) -> Option<Vec<u8>> {
    let c = changed_blocks(old, new, bs);
    Some(match kind {
        "intact" | "resume" => new.to_vec(),
        "truncate" => new.get(..j)?.to_vec(),
        "mixture" => mix(old, new, c.get(..j)?, len, bs),
        "rollback" => {
            let drop = *c.get(j.checked_sub(1)?)?;
            let s: Vec<usize> = c.iter().copied().filter(|&b| b != drop).collect();
            mix(old, new, &s, len, bs)
        }
        "hdr_new_data_old" => {
            let s: Vec<usize> = c.iter().copied().filter(|&b| b == 0).collect();
            mix(old, new, &s, len, bs)
        }
        "data_new_hdr_old" => {
            let s: Vec<usize> = c.iter().copied().filter(|&b| b != 0).collect();
            mix(old, new, &s, len, bs)
        }
        _ => return None,
    })
}

// ---------------------------------------------------------------- mode drive

fn mode_drive(a: &Args) {
    quiet_panics();
    let tmp = scratch(a);
    let _ = fs::remove_dir_all(&tmp);
    fs::create_dir_all(&tmp).expect("scratch dir");
    fs::create_dir_all(&a.out).expect("out dir");
    let mut shapes = fs::File::create(a.out.join("shapes.ndjson")).expect("shapes");
    let mut runs = fs::File::create(a.out.join("runs.ndjson")).expect("runs");
    let base_rng = Rng::new(a.seed);
    let nruns = a.get_u64("runs", if a.thorough() { 6 } else { 2 }) as usize;
    let mut run = 0usize;
    let mut summary = serde_json::Map::new();
    let mut nshapes = 0usize;
    for s in subjects() {
        if !a.wants(&s.name()) {
            continue;
        }
        let mut per = json!({"runs":0,"snapshots":0,"syncpoints":0,"panics":0});
        // one "big" run (files beyond 64 KiB / 4 KiB pages) per subject, the rest small (dense truncation)
        for r in 0..nruns + 1 {
            let big = r == nruns;
            if big && !(a.thorough() || matches!(s.fam(), "mmapvec" | "reorder" | "plain")) {
                continue;
            }
            if big && !a.thorough() && s.fam() == "mmapvec" && s.variant() != "u64" {
                continue;
            }
            run += 1;
            let bs: usize = s.block_size(r, big);
            let mut rng = base_rng.derive(&format!("{}#{}", s.name(), r));
            let run_dir = tmp.join(format!("r{run}"));
            let mut rec = Recorder::new(&run_dir);
            rec.bs = bs;
            let res = guard(|| s.drive(&mut rng, &mut rec, big));
            if res.is_err() {
                per["panics"] = json!(per["panics"].as_u64().unwrap() + 1);
            }
            let _ = fs::remove_dir_all(&rec.live);
            if rec.k == 0 {
                continue;
            }
            // shapes: snapshot k relative to the last sync snapshot before k (0 = nothing existed)
            let mut bases = vec![];
            let mut last_sync = 0usize;
            let mut syncs_seen = 0usize;
            let last_explicit = (1..=rec.k).rev().find(|&k| rec.points[k - 1]["sync"] == json!(true)).unwrap_or(rec.k);
            for k in 1..=rec.k {
                let base = last_sync;
                bases.push(base);
                let dk = run_dir.join(format!("s{k}"));
                let db = run_dir.join(format!("s{base}"));
                let dp = run_dir.join(format!("s{}", k - 1));
                let mut names = list_files(&dk);
                for n in list_files(&db) {
                    if !names.contains(&n) {
                        names.push(n);
                    }
                }
                names.sort();
                let is_sync = rec.points[k - 1]["sync"] == json!(true);
                // dense truncation (every byte): sync snapshots; quick tier: only the last one of the run
                let small = list_files(&dk).iter().all(|f| fs::metadata(dk.join(f)).map(|m| m.len() <= 512).unwrap_or(true));
                let dense = !big && is_sync && (a.thorough() || k == last_explicit || (small && syncs_seen < 2));
                if is_sync {
                    syncs_seen += 1;
                }
                let mut first = true;
                if names.is_empty() {
                    names.push(String::new());
                }
                for f in names {
                    let new = read_opt(&dk.join(&f));
                    let old = read_opt(&db.join(&f)).unwrap_or_default();
                    let prev = read_opt(&dp.join(&f));
                    let has_new = new.is_some() && !f.is_empty();
                    // rewritten in place: the file existed at the last sync snapshot and still has the
                    // same inode (a file replaced by rename has a new one: no old/new block mixtures)
                    let ino_k = rec.inos[k - 1].get(&f);
                    let inplace = base >= 1 && ino_k.is_some() && rec.inos[base - 1].get(&f) == ino_k;
                    let nb = new.clone().unwrap_or_default();
                    let c = if has_new { changed_blocks(&old, &nb, bs) } else { vec![] };
                    let sh = json!({
                        "run": run, "k": k, "f": f, "has_new": has_new, "intact": first,
                        "trunc": has_new && prev.as_ref() != Some(&nb),
                        "dense": dense || (is_sync && nb.len() <= s.dense_small_files()),
                        "old_len": old.len(), "new_len": nb.len(), "nch": c.len(),
                        "hdr_changed": c.first() == Some(&0), "bounds": rec.bounds[k - 1], "inplace": inplace,
                        "resume": first && is_sync && rec.points[k - 1]["valid"] == json!(true),
                    });
                    writeln!(shapes, "{}", sh).unwrap();
                    nshapes += 1;
                    first = false;
                }
                if is_sync {
                    last_sync = k;
                }
            }
            let info = json!({
                "run": run, "subject": s.name(), "fam": s.fam(), "variant": s.variant(), "framing": s.framing(),
                "seed": a.seed, "bs": bs, "big": big, "dir": run_dir.to_string_lossy(), "ops": rec.ops,
                "bases": bases, "syncpoints": rec.points, "wruns": rec.wruns,
            });
            writeln!(runs, "{}", info).unwrap();
            per["runs"] = json!(per["runs"].as_u64().unwrap() + 1);
            per["snapshots"] = json!(per["snapshots"].as_u64().unwrap() + rec.k as u64);
            let ns = rec.points.iter().filter(|p| p["sync"] == json!(true)).count() as u64;
            per["syncpoints"] = json!(per["syncpoints"].as_u64().unwrap() + ns);
        }
        summary.insert(s.name(), per);
    }
    write_summary(&a.out, &json!({"runs": run, "shapes": nshapes, "subjects": summary}));
}

// ---------------------------------------------------------------- mode child

static CUR_START_MS: AtomicU64 = AtomicU64::new(0);
static CUR_IDX: AtomicUsize = AtomicUsize::new(usize::MAX);

fn now_ms() -> u64 {
    std::time::SystemTime::now().duration_since(std::time::UNIX_EPOCH).map(|d| d.as_millis() as u64).unwrap_or(0)
}

fn append_line(p: &Path, v: &Value) {
    let mut f = fs::OpenOptions::new().create(true).append(true).open(p).expect("open result file");
    let mut s = v.to_string();
    s.push('\n');
    f.write_all(s.as_bytes()).expect("write result");
}

fn mode_child(a: &Args) {
    quiet_panics();
    let spec: Value = serde_json::from_slice(&fs::read(a.get("spec").expect("--spec")).expect("read spec")).expect("spec json");
    let res = PathBuf::from(a.get("res").expect("--res"));
    let subj = subject_by_name(spec["subject"].as_str().unwrap());
    let run_dir = PathBuf::from(spec["dir"].as_str().unwrap());
    let bs = spec["bs"].as_u64().unwrap() as usize;
    let limit_ms = spec["limit_ms"].as_u64().unwrap_or(10_000);
    let img_dir = run_dir.join(format!("img-{}", spec["slice"].as_u64().unwrap_or(0)));
    // watchdog: an image that takes longer than the limit is reported as timeout, the child ends
    {
        let res = res.clone();
        std::thread::spawn(move || loop {
            std::thread::sleep(std::time::Duration::from_millis(100));
            let st = CUR_START_MS.load(Ordering::SeqCst);
            let i = CUR_IDX.load(Ordering::SeqCst);
            if i != usize::MAX && st > 0 && now_ms().saturating_sub(st) > limit_ms {
                append_line(&res, &json!({"i": i, "outcome": "timeout"}));
                unsafe { libc::_exit(3) }
            }
        });
    }
    let mut cache: Option<(usize, usize, String, Vec<u8>, Vec<u8>)> = None;
    for it in spec["items"].as_array().unwrap() {
        let i = it["i"].as_u64().unwrap() as usize;
        let k = it["k"].as_u64().unwrap() as usize;
        let base = it["base"].as_u64().unwrap() as usize;
        let f = it["f"].as_str().unwrap().to_string();
        let kind = it["kind"].as_str().unwrap();
        let j = it["j"].as_u64().unwrap() as usize;
        let len = it["len"].as_u64().unwrap() as usize;
        let dk = run_dir.join(format!("s{k}"));
        let hit = matches!(&cache, Some((ck, cb, cf, _, _)) if *ck == k && *cb == base && *cf == f);
        if !hit {
            let new = if f.is_empty() { vec![] } else { read_opt(&dk.join(&f)).unwrap_or_default() };
            let old = if f.is_empty() { vec![] } else { read_opt(&run_dir.join(format!("s{base}")).join(&f)).unwrap_or_default() };
            cache = Some((k, base, f.clone(), old, new));
        }
        let (_, _, _, old, new) = cache.as_ref().unwrap();
        // materialise the image directory: the faulted file + the other files of snapshot k
        let _ = fs::remove_dir_all(&img_dir);
        fs::create_dir_all(&img_dir).expect("image dir");
        let bytes = if f.is_empty() { Some(vec![]) } else { materialise(kind, j, len, old, new, bs) };
        let bytes = match bytes {
            Some(b) => b,
            None => {
                append_line(&res, &json!({"i": i, "outcome": "bad_descriptor"}));
                continue;
            }
        };
        for n in list_files(&dk) {
            if n == f {
                continue;
            }
            if fs::hard_link(dk.join(&n), img_dir.join(&n)).is_err() {
                fs::copy(dk.join(&n), img_dir.join(&n)).expect("copy sibling");
            }
        }
        // (the undamaged image of a snapshot in which the file does not exist has no such file)
        if !f.is_empty() && ((kind != "intact" && kind != "resume") || dk.join(&f).exists()) {
            fs::write(img_dir.join(&f), &bytes).expect("write image");
        }
        if kind == "resume" {
            append_line(&res, &json!({"i": i, "begin": true}));
            CUR_IDX.store(i, Ordering::SeqCst);
            CUR_START_MS.store(now_ms(), Ordering::SeqCst);
            let modes = subj.modes();
            let mode = modes[k % modes.len()];
            let mut rng = Rng::new(spec["seed"].as_u64().unwrap_or(1)).derive(&format!("resume#{k}"));
            *REGEN.lock().unwrap() = None;
            SCRIPTS.lock().unwrap().clear();
            let r = guard(|| subj.resume(&img_dir, mode, &mut rng));
            CUR_START_MS.store(0, Ordering::SeqCst);
            let zero = json!({"len": 0, "h": [0, 0]});
            let mut line = match r {
                Ok(Ok(x)) => json!({"i": i, "outcome": "resume", "open": "ok", "mode": x.mode, "writable": x.writable,
                    "has_ids": x.has_ids, "c0": digest(&x.c0), "ids0": ids_json(&x.ids0), "new_ids": ids_json(&x.new_ids),
                    "len0": x.len0, "len1": x.len1, "added": x.added, "old0": digest(&x.old0), "old1": digest(&x.old1),
                    "live": digest(&x.live), "again_open": if x.again.is_ok() { "ok" } else { "err" },
                    "again": x.again.as_ref().map(|c| digest(c)).unwrap_or(zero.clone()),
                    "msg": x.again.err().unwrap_or_default()}),
                Ok(Err(msg)) => json!({"i": i, "outcome": "resume", "open": "err", "mode": mode, "msg": msg}),
                Err(msg) => json!({"i": i, "outcome": "resume", "open": "panic", "mode": mode, "msg": msg}),
            };
            if let Some(g) = REGEN.lock().unwrap().take() {
                line["regen"] = g;
            }
            let sc: Vec<Value> = SCRIPTS.lock().unwrap().drain(..).collect();
            if !sc.is_empty() {
                line["scripts"] = Value::Array(sc);
            }
            append_line(&res, &line);
            continue;
        }
        let flen = new.len();
        CLAIM.store(u64::MAX, Ordering::SeqCst);
        TAIL[1].store(0, Ordering::SeqCst);
        append_line(&res, &json!({"i": i, "begin": true}));
        CUR_IDX.store(i, Ordering::SeqCst);
        CUR_START_MS.store(now_ms(), Ordering::SeqCst);
        let r = guard(|| subj.reopen(&img_dir));
        CUR_START_MS.store(0, Ordering::SeqCst);
        let raw = digest(&bytes);
        let line = match r {
            Ok(Ok((content, extent))) => {
                let c = CLAIM.load(Ordering::SeqCst);
                let tail = match TAIL[1].load(Ordering::SeqCst) {
                    0 => json!([]),
                    n => json!([TAIL[0].load(Ordering::SeqCst), n]),
                };
                json!({"i": i, "outcome": "ok", "content": digest(&content), "extent": opt(extent), "tail": tail,
                    "claim": opt(if c == u64::MAX { None } else { Some(c) }), "len": bytes.len(), "flen": flen, "raw": raw})
            }
            Ok(Err(msg)) => json!({"i": i, "outcome": "err", "msg": msg, "len": bytes.len(), "flen": flen, "raw": raw}),
            Err(msg) => json!({"i": i, "outcome": "panic", "msg": msg, "len": bytes.len(), "flen": flen, "raw": raw}),
        };
        append_line(&res, &line);
    }
    let _ = fs::remove_dir_all(&img_dir);
}

// ---------------------------------------------------------------- mode images

#[derive(Clone)]
#[allow(dead_code)]
struct Item {
    i: usize,
    run: usize,
    k: usize,
    base: usize,
    f: String,
    kind: String,
    j: usize,
    len: usize,
    flen: usize,
}

fn run_slice(run: &Value, items: &[Item], slice_no: usize, out: &Path, limit_ms: u64) -> BTreeMap<usize, Value> {
    let mut results: BTreeMap<usize, Value> = BTreeMap::new();
    let mut start = 0usize;
    let mut attempt = 0usize;
    while start < items.len() {
        attempt += 1;
        let part = &items[start..];
        let spec_p = out.join(format!("slice-{slice_no}-{attempt}.json"));
        let res_p = out.join(format!("slice-{slice_no}-{attempt}.res"));
        let _ = fs::remove_file(&res_p);
        let spec = json!({
            "subject": run["subject"], "dir": run["dir"], "bs": run["bs"], "slice": slice_no, "limit_ms": limit_ms, "seed": run["seed"],
            "items": part.iter().map(|x| json!({"i": x.i, "k": x.k, "base": x.base, "f": x.f, "kind": x.kind, "j": x.j, "len": x.len})).collect::<Vec<_>>(),
        });
        fs::write(&spec_p, spec.to_string()).expect("write slice spec");
        let args: Vec<String> = vec![
            "--mode".into(), "child".into(),
            "--spec".into(), spec_p.to_string_lossy().to_string(),
            "--res".into(), res_p.to_string_lossy().to_string(),
        ];
        let secs = 60 + (part.len() as u64 * limit_ms) / 1000;
        let outcome = run_child(&args, secs, 1024, true);
        let mut begun: Option<usize> = None;
        if let Ok(txt) = fs::read_to_string(&res_p) {
            for l in txt.lines() {
                if let Ok(v) = serde_json::from_str::<Value>(l) {
                    let i = v["i"].as_u64().unwrap_or(u64::MAX) as usize;
                    if v.get("begin").is_some() {
                        begun = Some(i);
                    } else {
                        results.insert(i, v);
                        if begun == Some(i) {
                            begun = None;
                        }
                    }
                }
            }
        }
        let _ = fs::remove_file(&spec_p);
        let _ = fs::remove_file(&res_p);
        // which image is the first without a result?
        let next = part.iter().position(|x| !results.contains_key(&x.i));
        match next {
            None => break,
            Some(p) => {
                let it = &part[p];
                let v = match &outcome {
                    ChildOutcome::Signal(sig) => json!({"i": it.i, "outcome": "signal", "sig": sig}),
                    ChildOutcome::Timeout => json!({"i": it.i, "outcome": "timeout"}),
                    ChildOutcome::Exit(c) => json!({"i": it.i, "outcome": "signal", "sig": 0, "exit": c}),
                };
                // a child that ended without having begun this image is a harness problem, not an outcome
                if begun != Some(it.i) {
                    if let ChildOutcome::Exit(0) = outcome {
                        eprintln!("c19: child ended before image {} without a result", it.i);
                        std::process::exit(2);
                    }
                }
                results.insert(it.i, v);
                start += p + 1;
            }
        }
        if attempt > items.len() + 2 {
            break;
        }
    }
    results
}

fn mode_images(a: &Args) {
    fs::create_dir_all(&a.out).expect("out dir");
    let faults = read_ndjson(a.input.as_ref().expect("--in FAULTS"));
    let runs_v = read_ndjson(Path::new(a.get("runs").expect("--runs")));
    let runs: BTreeMap<usize, Value> = runs_v.into_iter().map(|r| (r["run"].as_u64().unwrap() as usize, r)).collect();
    let limit_ms = a.get_u64("limit_ms", 10_000);
    // the images each run asks for, in descriptor order
    let mut per_run: BTreeMap<usize, Vec<Item>> = BTreeMap::new();
    let mut n = 0usize;
    for fl in &faults {
        let run = fl["run"].as_u64().unwrap() as usize;
        let k = fl["k"].as_u64().unwrap() as usize;
        let info = match runs.get(&run) {
            Some(r) => r,
            None => continue,
        };
        if !a.wants(info["subject"].as_str().unwrap()) {
            continue;
        }
        let base = info["bases"][k - 1].as_u64().unwrap() as usize;
        for d in fl["ds"].as_array().unwrap() {
            per_run.entry(run).or_default().push(Item {
                i: n,
                run,
                k,
                base,
                f: fl["f"].as_str().unwrap().to_string(),
                kind: d[0].as_str().unwrap().to_string(),
                j: d[1].as_u64().unwrap() as usize,
                len: d[2].as_u64().unwrap() as usize,
                flen: fl["flen"].as_u64().unwrap_or(0) as usize,
            });
            n += 1;
        }
    }
    for v in per_run.values_mut() {
        v.sort_by_key(|x| (x.k, x.f.clone(), x.i));
    }
    // slices of images of one run, processed by a small pool of children
    let per_slice = a.get_u64("slice", 400) as usize;
    let mut slices: Vec<(usize, Vec<Item>)> = vec![];
    for (run, items) in &per_run {
        for ch in items.chunks(per_slice) {
            slices.push((*run, ch.to_vec()));
        }
    }
    let jobs = std::env::var("VERIF_JOBS").ok().and_then(|s| s.parse::<usize>().ok()).unwrap_or(6).clamp(1, 6);
    let next = Arc::new(AtomicUsize::new(0));
    let all: Arc<Mutex<BTreeMap<usize, Value>>> = Arc::new(Mutex::new(BTreeMap::new()));
    let slices = Arc::new(slices);
    let runs = Arc::new(runs);
    let mut hs = vec![];
    for _ in 0..jobs {
        let (next, all, slices, runs, out) = (next.clone(), all.clone(), slices.clone(), runs.clone(), a.out.clone());
        hs.push(std::thread::spawn(move || loop {
            let s = next.fetch_add(1, Ordering::SeqCst);
            if s >= slices.len() {
                break;
            }
            let (run, items) = &slices[s];
            let r = run_slice(&runs[run], items, s, &out, limit_ms);
            all.lock().unwrap().extend(r);
        }));
    }
    for h in hs {
        h.join().expect("worker");
    }
    let all = all.lock().unwrap();
    // traces: one run = reset, history, (image, reopen)*
    let mut tr = Tracer::new(&a.out, "c19");
    tr.max_events = a.get_u64("max_events", 6000) as usize;
    let mut subj_sum: BTreeMap<String, BTreeMap<String, u64>> = BTreeMap::new();
    let mut nontrivial = std::collections::BTreeSet::new();
    let mut samples: Vec<Value> = vec![];
    for (run, items) in &per_run {
        let info = &runs[run];
        let name = info["subject"].as_str().unwrap();
        tr.reset("DurableFile", name, json!({
            "fam": info["fam"], "variant": info["variant"], "framing": info["framing"], "seed": info["seed"],
            "bs": info["bs"], "big": info["big"], "ops": info["ops"], "frun": run, "wruns": info["wruns"],
        }));
        tr.ev(json!({"op": "history", "syncpoints": info["syncpoints"]}));
        let sum = subj_sum.entry(name.to_string()).or_default();
        for it in items {
            let r = match all.get(&it.i) {
                Some(r) => r.clone(),
                None => json!({"outcome": "signal", "sig": 0, "missing": true}),
            };
            let outcome = r["outcome"].as_str().unwrap_or("signal").to_string();
            let zero = json!({"len": 0, "h": [0, 0]});
            if it.kind == "resume" {
                // continuation of the undamaged sync image k: one event carrying everything observed
                let open = if outcome == "resume" { r["open"].as_str().unwrap_or("err").to_string() } else { outcome.clone() };
                let g = |f: &str, d: Value| r.get(f).cloned().unwrap_or(d);
                tr.ev(json!({"op": "resume", "k": it.k, "open": open, "mode": g("mode", json!("")),
                    "writable": g("writable", json!(false)), "has_ids": g("has_ids", json!(false)),
                    "c0": g("c0", zero.clone()), "ids0": g("ids0", json!([])), "new_ids": g("new_ids", json!([])),
                    "len0": g("len0", json!(0)), "len1": g("len1", json!(0)), "added": g("added", json!(0)),
                    "old0": g("old0", zero.clone()), "old1": g("old1", zero.clone()), "live": g("live", zero.clone()),
                    "again_open": g("again_open", json!("err")), "again": g("again", zero.clone()), "msg": g("msg", json!(""))}));
                if let Some(list) = r.get("scripts").and_then(|x| x.as_array()) {
                    for g in list {
                        let mut e = g.clone();
                        e["op"] = json!("script");
                        tr.ev(e);
                        *sum.entry(format!("script/{}", g["reader"].as_str().unwrap_or("?"))).or_default() += 1;
                    }
                }
                if let Some(g) = r.get("regen") {
                    let mut e = g.clone();
                    e["op"] = json!("regen");
                    tr.ev(e);
                    *sum.entry(format!("regen/{}", g["api"].as_str().unwrap_or("?"))).or_default() += 1;
                }
                *sum.entry(format!("resume/{}/{}", r["mode"].as_str().unwrap_or("?"), open)).or_default() += 1;
                *sum.entry("images".into()).or_default() += 1;
                nontrivial.insert((name.to_string(), *run, it.k, it.f.clone(), it.kind.clone(), it.j, it.len));
                continue;
            }
            tr.ev(json!({"op": "image", "kind": it.kind, "k": it.k, "j": it.j, "len": r.get("len").cloned().unwrap_or(json!(it.len)),
                "upto": it.k, "base": it.base, "f": it.f, "raw": r.get("raw").cloned().unwrap_or(zero.clone()),
                "flen": r.get("flen").cloned().unwrap_or(json!(it.flen))}));
            let mut e = json!({"op": "reopen", "outcome": outcome, "content": r.get("content").cloned().unwrap_or(zero),
                "extent": r.get("extent").cloned().unwrap_or(json!([])), "claim": r.get("claim").cloned().unwrap_or(json!([])),
                "tail": r.get("tail").cloned().unwrap_or(json!([]))});
            for f in ["msg", "sig", "exit"] {
                if let Some(v) = r.get(f) {
                    e[f] = v.clone();
                }
            }
            tr.ev(e);
            *sum.entry(format!("{}/{}", it.kind, outcome)).or_default() += 1;
            *sum.entry("images".into()).or_default() += 1;
            if it.kind != "intact" {
                nontrivial.insert((name.to_string(), *run, it.k, it.f.clone(), it.kind.clone(), it.j, it.len));
            }
            if samples.len() < 8 && (it.i % 997 == 0) {
                samples.push(json!({"subject": name, "image": {"kind": it.kind, "k": it.k, "j": it.j, "len": it.len, "f": it.f}, "reopen": r}));
            }
        }
    }
    tr.close();
    write_summary(&a.out, &json!({
        "images": n, "events": tr.total_events, "runs": tr.runs, "distinct_nontrivial": nontrivial.len(),
        "subjects": subj_sum, "samples": samples, "slices": slices.len(), "jobs": jobs,
    }));
    if a.get("keep").is_none() {
        let _ = fs::remove_dir_all(scratch(a));
    }
}

fn main() {
    let a = Args::parse();
    match a.mode.as_str() {
        "drive" => mode_drive(&a),
        "images" => mode_images(&a),
        "child" => mode_child(&a),
        "clean" => {
            let _ = fs::remove_dir_all(scratch(&a));
        }
        m => {
            eprintln!("c19: unknown mode {m}");
            std::process::exit(2)
        }
    }
}
