//! C13 — serialised values decode to themselves and consume exactly their own bytes.
//!
//! Runs the real zipora::io encoders / decoders / readers / writers and logs every call as one
//! NDJSON event; TLC judges the events against spec/Wire.tla (Trace_Wire.tla).  The harness holds
//! no reference codec: values are *projected* to opaque strings (decimal numbers, digests) before
//! and after the round trip, byte counts are the ones the implementation reports, and reader
//! back ends are logged as (request size, bytes returned).
//!
//! part 1 (records): write(v) -> n bytes, read -> (v, consumed); interleaved schedules
//! part 1b (DataInput/DataOutput back-end matrix): the same records through every writer/reader pair
//! part 2 (views): RangeReader / MultiRangeReader / StreamBufferedReader / ZeroCopyReader /
//!         ZeroCopyBuffer / MmapZeroCopyReader / MemoryMappedInput / VectoredIO and the writers
use serde_json::{json, Value};
use std::cell::RefCell;
use std::collections::{BTreeMap, BTreeSet, HashMap, HashSet};
use std::fs::File;
use std::io::{self, BufRead, Cursor, IoSlice, IoSliceMut, Read, Seek, SeekFrom, Write};
use std::path::PathBuf;
use std::rc::Rc;
use std::sync::Arc;
use zipora::io::complex_types::{ComplexSerialize, ComplexTypeConfig, ComplexTypeSerializer, NestedSerialize};
use zipora::io::endian::{self, EndianConvert, EndianIO, Endianness};
use zipora::io::mmap::{MemoryMappedInput, MemoryMappedOutput};
use zipora::io::range_stream::{MultiRangeReader, RangeReader, RangeWriter};
use zipora::io::simd_encoding::varint::SimdVarintCodec;
use zipora::io::smart_ptr::{
    DeserializationContext, SerializableType, SerializationContext, SmartPtrConfig, SmartPtrSerialize, SmartPtrSerializer,
};
use zipora::io::stream_buffer::{StreamBufferConfig, StreamBufferedReader, StreamBufferedWriter};
use zipora::io::var_int::{SignedVarInt, VarInt};
use zipora::io::var_int_variants::{choose_optimal_strategy, choose_optimal_strategy_signed, VarIntEncoder, VarIntStrategy};
use zipora::io::versioning::{Version, VersionConfig, VersionManager, VersionProxy, VersionedSerialize, VersionedSerializer};
use zipora::io::zero_copy::mmap::MmapZeroCopyReader;
use zipora::io::zero_copy::{VectoredIO, ZeroCopyBuffer, ZeroCopyRead, ZeroCopyReader, ZeroCopyWrite, ZeroCopyWriter};
use zipora::io::{DataInput, DataOutput, FileDataOutput, MmapDataInput, ReaderDataInput, SliceDataInput, VecDataOutput, WriterDataOutput};
use zv::*;

type ZResult<T> = zipora::error::Result<T>;

fn es<E: std::fmt::Display>(e: E) -> String {
    e.to_string().chars().take(100).collect()
}

// ---------------------------------------------------------------- projections (opaque values)

/// digest of a byte payload as one opaque string
fn dg(b: &[u8]) -> String {
    let d = digest(b);
    format!("b{}:{}:{}", b.len(), d["h"][0], d["h"][1])
}

/// projection of a value into a flat sequence of opaque strings
trait P {
    fn p(&self, o: &mut Vec<String>);
    fn pv(&self) -> Vec<String> {
        let mut o = vec![];
        self.p(&mut o);
        o
    }
}
macro_rules! p_disp {
    ($($t:ty),*) => { $(impl P for $t { fn p(&self, o: &mut Vec<String>) { o.push(self.to_string()) } })* };
}
p_disp!(u8, u16, u32, u64, u128, usize, i8, i16, i32, i64, i128, isize, bool);
impl P for f32 {
    fn p(&self, o: &mut Vec<String>) {
        o.push(format!("f{}", self.to_bits()))
    }
}
impl P for f64 {
    fn p(&self, o: &mut Vec<String>) {
        o.push(format!("d{}", self.to_bits()))
    }
}
impl P for String {
    fn p(&self, o: &mut Vec<String>) {
        o.push(dg(self.as_bytes()))
    }
}
impl P for () {
    fn p(&self, o: &mut Vec<String>) {
        o.push("unit".into())
    }
}
impl<T: P> P for Vec<T> {
    fn p(&self, o: &mut Vec<String>) {
        o.push(format!("vec{}", self.len()));
        for x in self {
            x.p(o)
        }
    }
}
impl<T: P, const N: usize> P for [T; N] {
    fn p(&self, o: &mut Vec<String>) {
        o.push(format!("arr{}", N));
        for x in self {
            x.p(o)
        }
    }
}
impl<T: P> P for Option<T> {
    fn p(&self, o: &mut Vec<String>) {
        match self {
            None => o.push("none".into()),
            Some(x) => {
                o.push("some".into());
                x.p(o)
            }
        }
    }
}
impl<T: P, E: P> P for Result<T, E> {
    fn p(&self, o: &mut Vec<String>) {
        match self {
            Ok(x) => {
                o.push("ok".into());
                x.p(o)
            }
            Err(x) => {
                o.push("err".into());
                x.p(o)
            }
        }
    }
}
impl<T: P> P for Box<T> {
    fn p(&self, o: &mut Vec<String>) {
        (**self).p(o)
    }
}
impl<T: P> P for Rc<T> {
    fn p(&self, o: &mut Vec<String>) {
        (**self).p(o)
    }
}
impl<T: P> P for Arc<T> {
    fn p(&self, o: &mut Vec<String>) {
        (**self).p(o)
    }
}
macro_rules! p_tuple {
    ($($T:ident),+) => {
        impl<$($T: P),+> P for ($($T,)+) {
            #[allow(non_snake_case)]
            fn p(&self, o: &mut Vec<String>) {
                let ($($T,)+) = self;
                o.push("tup".into());
                $($T.p(o);)+
            }
        }
    };
}
p_tuple!(A);
p_tuple!(A, B);
p_tuple!(A, B, C);
p_tuple!(A, B, C, D);
p_tuple!(A, B, C, D, E, F, G, H, I, J, K, L);
impl P for Version {
    fn p(&self, o: &mut Vec<String>) {
        o.push(format!("v{}.{}.{}", self.major(), self.minor(), self.patch()))
    }
}
/// unordered collections: one string per entry; TLC compares them as sets
fn join(v: Vec<String>) -> String {
    v.join("|")
}
impl<K: P, V: P> P for HashMap<K, V> {
    fn p(&self, o: &mut Vec<String>) {
        for (k, v) in self {
            let mut e = k.pv();
            v.p(&mut e);
            o.push(join(e))
        }
    }
}
impl<T: P> P for HashSet<T> {
    fn p(&self, o: &mut Vec<String>) {
        for k in self {
            o.push(join(k.pv()))
        }
    }
}
impl<K: P, V: P> P for BTreeMap<K, V> {
    fn p(&self, o: &mut Vec<String>) {
        o.push(format!("bmap{}", self.len()));
        for (k, v) in self {
            k.p(o);
            v.p(o)
        }
    }
}
impl<T: P> P for BTreeSet<T> {
    fn p(&self, o: &mut Vec<String>) {
        o.push(format!("bset{}", self.len()));
        for k in self {
            k.p(o)
        }
    }
}

// ---------------------------------------------------------------- dyn adapters (pure forwarding)

struct DynOut<'a>(&'a mut dyn DataOutput);
impl<'a> DataOutput for DynOut<'a> {
    fn write_u8(&mut self, v: u8) -> ZResult<()> {
        self.0.write_u8(v)
    }
    fn write_u16(&mut self, v: u16) -> ZResult<()> {
        self.0.write_u16(v)
    }
    fn write_u32(&mut self, v: u32) -> ZResult<()> {
        self.0.write_u32(v)
    }
    fn write_u64(&mut self, v: u64) -> ZResult<()> {
        self.0.write_u64(v)
    }
    fn write_var_int(&mut self, v: u64) -> ZResult<()> {
        self.0.write_var_int(v)
    }
    fn write_bytes(&mut self, d: &[u8]) -> ZResult<()> {
        self.0.write_bytes(d)
    }
    fn write_length_prefixed_bytes(&mut self, d: &[u8]) -> ZResult<()> {
        self.0.write_length_prefixed_bytes(d)
    }
    fn write_string(&mut self, s: &str) -> ZResult<()> {
        self.0.write_string(s)
    }
    fn write_length_prefixed_string(&mut self, s: &str) -> ZResult<()> {
        self.0.write_length_prefixed_string(s)
    }
    fn flush(&mut self) -> ZResult<()> {
        self.0.flush()
    }
    fn position(&self) -> Option<u64> {
        self.0.position()
    }
    fn bytes_written(&self) -> Option<u64> {
        self.0.bytes_written()
    }
}
struct DynIn<'a>(&'a mut dyn DataInput);
impl<'a> DataInput for DynIn<'a> {
    fn read_u8(&mut self) -> ZResult<u8> {
        self.0.read_u8()
    }
    fn read_u16(&mut self) -> ZResult<u16> {
        self.0.read_u16()
    }
    fn read_u32(&mut self) -> ZResult<u32> {
        self.0.read_u32()
    }
    fn read_u64(&mut self) -> ZResult<u64> {
        self.0.read_u64()
    }
    fn read_var_int(&mut self) -> ZResult<u64> {
        self.0.read_var_int()
    }
    fn read_bytes(&mut self, b: &mut [u8]) -> ZResult<()> {
        self.0.read_bytes(b)
    }
    fn read_vec(&mut self, n: usize) -> ZResult<Vec<u8>> {
        self.0.read_vec(n)
    }
    fn read_length_prefixed_bytes(&mut self) -> ZResult<Vec<u8>> {
        self.0.read_length_prefixed_bytes()
    }
    fn read_string(&mut self, n: usize) -> ZResult<String> {
        self.0.read_string(n)
    }
    fn read_length_prefixed_string(&mut self) -> ZResult<String> {
        self.0.read_length_prefixed_string()
    }
    fn skip(&mut self, n: usize) -> ZResult<()> {
        self.0.skip(n)
    }
    fn position(&self) -> Option<u64> {
        self.0.position()
    }
    fn has_remaining(&self) -> Option<bool> {
        self.0.has_remaining()
    }
}

/// stimulus: an inner reader that returns at most `m` bytes per call (short reads)
struct Chunked<R> {
    inner: R,
    m: usize,
}
impl<R: Read> Read for Chunked<R> {
    fn read(&mut self, buf: &mut [u8]) -> io::Result<usize> {
        let k = buf.len().min(self.m);
        self.inner.read(&mut buf[..k])
    }
}
/// stimulus: an inner writer that accepts at most `m` bytes per call (short writes)
struct ShortW {
    inner: Vec<u8>,
    m: usize,
}
impl Write for ShortW {
    fn write(&mut self, buf: &[u8]) -> io::Result<usize> {
        let k = buf.len().min(self.m);
        self.inner.extend_from_slice(&buf[..k]);
        Ok(k)
    }
    fn flush(&mut self) -> io::Result<()> {
        Ok(())
    }
}

/// how many bytes a short sink / source moves per call
#[derive(Clone)]
enum Chunk {
    Fixed(usize),
    /// seeded random 1..=n
    Rand(usize, Rng),
}
impl Chunk {
    fn next(&mut self) -> usize {
        match self {
            Chunk::Fixed(k) => *k,
            Chunk::Rand(n, r) => r.range(1, *n as u64) as usize,
        }
    }
}
/// stimulus: a legal `io::Write` that accepts at most `chunk` bytes per call (pipe / socket like),
/// optionally answers Ok(0) once or Err(Interrupted) once at a given call, optionally has a fixed
/// capacity (then it answers Ok(0) for ever).  The sink is shared so the driver can look at it.
struct ShortSink {
    data: Rc<RefCell<Vec<u8>>>,
    chunk: Chunk,
    calls: usize,
    zero_at: Option<usize>,
    intr_at: Option<usize>,
    intr_repeat: bool,
    cap: Option<usize>,
}
impl ShortSink {
    fn new(chunk: Chunk) -> (ShortSink, Rc<RefCell<Vec<u8>>>) {
        let d = Rc::new(RefCell::new(Vec::new()));
        (ShortSink { data: d.clone(), chunk, calls: 0, zero_at: None, intr_at: None, intr_repeat: false, cap: None }, d)
    }
}
impl Write for ShortSink {
    fn write(&mut self, buf: &[u8]) -> io::Result<usize> {
        self.calls += 1;
        if self.intr_at == Some(self.calls) {
            // once, or again every 5 calls when `intr_repeat` (a retry always gets through)
            self.intr_at = if self.intr_repeat { Some(self.calls + 5) } else { None };
            return Err(io::Error::new(io::ErrorKind::Interrupted, "interrupted (stimulus)"));
        }
        if self.zero_at == Some(self.calls) {
            self.zero_at = None;
            return Ok(0);
        }
        let mut k = buf.len().min(self.chunk.next());
        if let Some(c) = self.cap {
            k = k.min(c.saturating_sub(self.data.borrow().len()));
        }
        self.data.borrow_mut().extend_from_slice(&buf[..k]);
        Ok(k)
    }
    fn flush(&mut self) -> io::Result<()> {
        Ok(())
    }
}
/// stimulus: a legal `io::Read` that returns at most `chunk` bytes per call, optionally
/// Err(Interrupted) once at a given call
struct ShortSrc {
    inner: Cursor<Vec<u8>>,
    chunk: Chunk,
    calls: usize,
    intr_at: Option<usize>,
}
impl Read for ShortSrc {
    fn read(&mut self, buf: &mut [u8]) -> io::Result<usize> {
        self.calls += 1;
        if self.intr_at == Some(self.calls) {
            self.intr_at = None;
            return Err(io::Error::new(io::ErrorKind::Interrupted, "interrupted (stimulus)"));
        }
        let k = buf.len().min(self.chunk.next());
        self.inner.read(&mut buf[..k])
    }
}

// ---------------------------------------------------------------- context / statistics

#[derive(Default, Clone)]
struct Stat {
    runs: usize,
    events: usize,
    writes: usize,
    reads: usize,
    w_refused: usize,
    r_refused: usize,
    panics: usize,
    cases: usize,
}

struct Cx {
    a: Args,
    tracers: BTreeMap<String, Tracer>,
    stats: BTreeMap<String, Stat>,
    seen: HashSet<String>,
    tmp: PathBuf,
    fileno: usize,
}
impl Cx {
    fn new(a: &Args) -> Cx {
        let tmp = PathBuf::from("/verif/work/C13-tmp").join(format!("run-{}", std::process::id()));
        std::fs::create_dir_all(&tmp).expect("tmp dir");
        Cx { a: a.clone(), tracers: BTreeMap::new(), stats: BTreeMap::new(), seen: HashSet::new(), tmp, fileno: 0 }
    }
    /// trace file partition: one file per family for the record subjects, one per (family, first
    /// two components of the variant) for the reader / writer subjects; the subjects of OWN_FILE
    /// get a file of their own so that one rejected subject never delays the others
    fn group_of(subject: &str) -> String {
        const OWN_FILE: &[&str] = &[
            "encseq:delta-u64", "encseq:groupvarint-u64", "encseq:groupvarint-i64", "encseq:auto-u64", "endian:magic", "endian:slices",
            "smart:weak", "smart:ctx-temp", "ver:version", "ver:versioned", "rd:buffered_seekcur", "rd:zerocopy_over",
            "rd:vectored-chunked", "rd:vectored-zerocopy8", "wr:vectored-short",
            "dio:vec-sbr_intr", "dio:vec-zc_intr", "dio:zcw_short-zc_short",
        ];
        let clean = |x: &str| -> String { x.chars().map(|c| if c.is_ascii_alphanumeric() || c == '-' { c } else { '_' }).collect() };
        if OWN_FILE.contains(&subject) {
            return clean(&subject.replace(':', "-"));
        }
        let fam = subject.split(':').next().unwrap_or("x");
        let var = subject.split(':').nth(1).unwrap_or("");
        let parts: Vec<&str> = var.split('-').collect();
        match (fam, parts[0]) {
            ("rd", "buffered") | ("rd", "zerocopy") => clean(&format!("rd-{}-{}", parts[0], parts.get(1).unwrap_or(&""))),
            ("rd", "range") => "rd-range".into(),
            ("rd", "mminput") | ("rd", "mmapzc") => "rd-mm".into(),
            ("rd", _) => "rd-misc".into(),
            ("wr", "buffered") => "wr-buffered".into(),
            ("wr", "zerocopy") => "wr-zerocopy".into(),
            ("wr", _) => "wr-range".into(),
            ("dio", o) => {
                let cls = if ["short", "zero_", "intr_", "fixed_", "range_t", "sbw_s", "zcw_s"].iter().any(|p| o.starts_with(p)) {
                    "short"
                } else if o.starts_with("vec") {
                    "vec"
                } else if o.starts_with("writer") {
                    "writer"
                } else {
                    "file"
                };
                format!("dio-{cls}")
            }
            _ => clean(fam),
        }
    }
    fn reset(&mut self, subject: &str, cfg: Value) {
        let g = Cx::group_of(subject);
        let out = self.a.out.clone();
        let tr = self.tracers.entry(g.clone()).or_insert_with(|| {
            let mut t = Tracer::new(&out, &format!("wire-{g}"));
            t.max_events = 4000;
            t
        });
        let fam = subject.split(':').next().unwrap_or("").to_string();
        let variant = subject.split(':').nth(1).unwrap_or("").to_string();
        let kind = variant.split('-').next().unwrap_or("").to_string();
        let mut c = json!({"fam": fam, "variant": variant, "kind": kind, "seed": self.a.seed});
        if let (Some(o), Some(x)) = (c.as_object_mut(), cfg.as_object()) {
            for (k, v) in x {
                o.insert(k.clone(), v.clone());
            }
        }
        tr.reset("wire", subject, c);
        let st = self.stats.entry(subject.to_string()).or_default();
        st.runs += 1;
        st.events += 1;
    }
    fn ev(&mut self, subject: &str, e: Value) {
        let g = Cx::group_of(subject);
        let st = self.stats.entry(subject.to_string()).or_default();
        st.events += 1;
        match e["op"].as_str().unwrap_or("") {
            "write" | "accept" | "extend" => st.writes += 1,
            "read" | "read_val" | "read_field" | "readn" | "read_exact" | "peek" | "sink" | "batch_eq" => st.reads += 1,
            "write_refused" => st.w_refused += 1,
            "read_refused" | "readn_refused" => st.r_refused += 1,
            "panic" => st.panics += 1,
            _ => {}
        }
        self.tracers.get_mut(&g).expect("reset first").ev(e);
    }
    /// count a distinct non-trivial case (subject, fingerprint)
    fn case(&mut self, subject: &str, fp: &str) {
        if self.seen.insert(format!("{subject}\u{1}{fp}")) {
            self.stats.entry(subject.to_string()).or_default().cases += 1;
        }
    }
    fn path(&mut self, tag: &str) -> PathBuf {
        self.fileno += 1;
        self.tmp.join(format!("{tag}-{}.bin", self.fileno))
    }
    fn finish(mut self) {
        let mut files = vec![];
        let (mut events, mut runs) = (0usize, 0usize);
        for t in self.tracers.values_mut() {
            t.close();
            events += t.total_events;
            runs += t.runs;
            files.extend(t.files.iter().map(|p| p.display().to_string()));
        }
        let mut subj = serde_json::Map::new();
        let mut cases = 0usize;
        for (k, s) in &self.stats {
            cases += s.cases;
            subj.insert(
                k.clone(),
                json!({"runs": s.runs, "events": s.events, "writes": s.writes, "reads": s.reads, "w_refused": s.w_refused,
                       "r_refused": s.r_refused, "panics": s.panics, "cases": s.cases}),
            );
        }
        write_summary(&self.a.out, &json!({"mode": "drive", "events": events, "runs": runs, "cases": cases, "files": files, "subjects": subj}));
        let _ = std::fs::remove_dir_all(&self.tmp);
    }
}

// ---------------------------------------------------------------- part 1: records

type EncF = Box<dyn Fn(&mut Vec<u8>) -> Result<Option<usize>, String>>;
type DecF = Box<dyn Fn(&[u8]) -> Result<(Vec<String>, Option<usize>), String>>;

/// one value together with its real encoder and decoder
struct Item {
    codec: String,
    v: Vec<String>,
    unordered: bool,
    /// the decoder is a whole-buffer API: it gets exactly the record's bytes; otherwise it gets
    /// the whole remainder of the stream (the following records are trailing data)
    exact: bool,
    /// appends the encoding; Some(n) = byte count the encoder itself reported
    enc: EncF,
    /// (projected value, consumed byte count if the decoder reports one)
    dec: DecF,
    /// length prediction API, asked right after the write
    len_pred: Option<Box<dyn Fn() -> usize>>,
    /// versioned field: [wv, fv, rv, mx]; the decoder returns ["none"] / ["some", ...]
    field: Option<Value>,
    /// characterisation of the INPUT (e.g. "over32": an element needs more than 32 bits); used only
    /// by the guards of the known-finding deviations
    tags: Vec<String>,
    /// size-class predicates of the codec ("fits in k bytes"), asked right after the write
    fits: Vec<(usize, Box<dyn Fn() -> bool>)>,
}

/// Execute the items of one run under an interleaved write/read schedule.
fn run_items(cx: &mut Cx, subject: &str, items: Vec<Item>, rng: &mut Rng, cfg: Value) {
    cx.reset(subject, cfg);
    let mut bytes: Vec<u8> = vec![];
    let mut recs: Vec<(usize, usize, usize)> = vec![]; // (item index, at, n) of successful writes
    let (mut w, mut r, mut pos) = (0usize, 0usize, 0usize);
    loop {
        let can_w = w < items.len();
        let can_r = r < recs.len();
        if !can_w && !can_r {
            break;
        }
        let do_w = can_w && (!can_r || rng.chance(11, 20));
        if do_w {
            let it = &items[w];
            let at = bytes.len();
            match guard(|| (it.enc)(&mut bytes)) {
                Ok(Ok(reported)) => {
                    let n = bytes.len() - at;
                    cx.ev(subject, json!({"op":"write","codec":it.codec,"v":it.v,"n":n,"at":at}));
                    if let Some(c) = reported {
                        cx.ev(subject, json!({"op":"encoded_len","api":"returned","v":it.v,"r":c}));
                    }
                    if let Some(lp) = &it.len_pred {
                        match guard(|| lp()) {
                            Ok(c) => cx.ev(subject, json!({"op":"encoded_len","api":"predicted","v":it.v,"r":c})),
                            Err(m) => {
                                cx.ev(subject, json!({"op":"panic","in":"encoded_len","codec":it.codec,"msg":m}));
                                return;
                            }
                        }
                    }
                    for (k, f) in &it.fits {
                        match guard(|| f()) {
                            Ok(r) => cx.ev(subject, json!({"op":"fits_in","v":it.v,"k":k,"r":r})),
                            Err(m) => {
                                cx.ev(subject, json!({"op":"panic","in":"fits_in","codec":it.codec,"msg":m}));
                                return;
                            }
                        }
                    }
                    recs.push((w, at, n));
                }
                Ok(Err(msg)) => {
                    bytes.truncate(at);
                    cx.ev(subject, json!({"op":"write_refused","codec":it.codec,"v":it.v,"msg":msg}));
                }
                Err(m) => {
                    cx.ev(subject, json!({"op":"panic","in":"write","codec":it.codec,"v":it.v,"msg":m.chars().take(100).collect::<String>()}));
                    return;
                }
            }
            w += 1;
        } else {
            let (ix, at, n) = recs[r];
            debug_assert_eq!(at, pos);
            let it = &items[ix];
            let data: &[u8] = if it.exact { &bytes[pos..pos + n] } else { &bytes[pos..] };
            match guard(|| (it.dec)(data)) {
                Ok(Ok((v, consumed))) => {
                    if let Some(f) = &it.field {
                        let present = v.first().map_or(false, |s| s == "some");
                        let vv: Vec<String> = v.iter().skip(1).cloned().collect();
                        cx.ev(subject, json!({"op":"read_field","codec":it.codec,"v":vv,"present":present,"consumed":consumed.unwrap_or(0),"at":pos,
                            "wv":f["wv"],"fv":f["fv"],"rv":f["rv"],"mx":f["mx"]}));
                    } else {
                        match consumed {
                            Some(c) => cx.ev(subject, json!({"op":"read","codec":it.codec,"v":v,"consumed":c,"at":pos,"unordered":it.unordered,"tags":it.tags})),
                            None => cx.ev(subject, json!({"op":"read_val","codec":it.codec,"v":v,"at":pos,"unordered":it.unordered,"tags":it.tags})),
                        }
                    }
                    cx.case(subject, &format!("{}/{}", it.codec, it.v.join(",")));
                }
                Ok(Err(msg)) => cx.ev(subject, json!({"op":"read_refused","codec":it.codec,"at":pos,"want":it.v,"msg":msg,"tags":it.tags})),
                Err(m) => {
                    cx.ev(subject, json!({"op":"panic","in":"read","codec":it.codec,"want":it.v,"msg":m.chars().take(100).collect::<String>()}));
                    return;
                }
            }
            // the driver continues at the record boundary the encoder produced
            pos += n;
            r += 1;
        }
    }
    cx.ev(subject, json!({"op":"total","r":bytes.len()}));
    // nothing is left: a further read may only be refused (or the decoder sees an empty slice)
}

// ---------------------------------------------------------------- value families

fn u64_values(rng: &mut Rng) -> Vec<u64> {
    let mut v = vec![0u64, 1, 2];
    for k in 1..=9u32 {
        let p = 1u64 << (7 * k);
        v.extend_from_slice(&[p - 1, p, p + 1]);
    }
    v.extend_from_slice(&[255, 256, 65535, 65536, (1u64 << 32) - 1, 1u64 << 32, (1u64 << 32) + 1, 1u64 << 56, (1u64 << 56) - 1]);
    // byte-width boundaries (prefix-free length byte, group-varint selector)
    for k in 1..=7u32 {
        let p = 1u64 << (8 * k);
        v.extend_from_slice(&[p - 1, p]);
    }
    v.extend_from_slice(&[i64::MAX as u64, (i64::MAX as u64) + 1, u64::MAX - 1, u64::MAX]);
    for _ in 0..6 {
        let bits = rng.range(1, 64) as u32;
        v.push(rng.next() >> (64 - bits));
    }
    v
}
fn i64_values(rng: &mut Rng) -> Vec<i64> {
    let mut v = vec![0i64, 1, -1, 2, -2, 63, 64, -64, -65];
    for k in 1..=9u32 {
        for sh in [7 * k - 1, 7 * k] {
            if sh >= 63 {
                continue;
            }
            let p = 1i64 << sh;
            v.extend_from_slice(&[p - 1, p, p + 1, -(p - 1), -p, -(p + 1)]);
        }
    }
    v.extend_from_slice(&[i64::MAX, i64::MAX - 1, i64::MIN, i64::MIN + 1, i32::MIN as i64, i32::MAX as i64]);
    for _ in 0..6 {
        let bits = rng.range(1, 64) as u32;
        v.push((rng.next() >> (64 - bits)) as i64 * if rng.chance(1, 2) { -1 } else { 1 });
    }
    v
}
/// sequences of lengths 0..=9 under several value profiles
fn u64_seqs(rng: &mut Rng) -> Vec<Vec<u64>> {
    let pool = u64_values(rng);
    let mut out = vec![];
    for len in 0..=9usize {
        // boundary values, rotating window
        out.push((0..len).map(|i| pool[(len * 3 + i * 5) % pool.len()]).collect());
        // ascending small steps
        let base = rng.below(1000);
        out.push((0..len).map(|i| base + (i as u64) * 3).collect());
        // descending
        out.push((0..len).map(|i| 1_000_000 - (i as u64) * 777).collect());
        // below 2^32 (the domain group varint is chosen for)
        out.push((0..len).map(|_| rng.next() >> 33).collect());
        // every selector width of group varint (1, 2, 3, 4 bytes), rotating
        let widths = [0u64, 255, 256, 65535, 65536, (1 << 24) - 1, 1 << 24, u32::MAX as u64, 1, 0x1234, 0x12_3456, 0x1234_5678];
        out.push((0..len).map(|i| widths[(i * 5 + len) % widths.len()]).collect());
        // large first differences
        out.push((0..len).map(|i| if i % 2 == 0 { 0 } else { u64::MAX }).collect());
        out.push((0..len).map(|i| if i % 2 == 0 { u64::MAX } else { 1 }).collect());
        // random full width
        out.push((0..len).map(|_| rng.next()).collect());
        // small
        out.push((0..len).map(|_| rng.below(256)).collect());
    }
    out
}
fn i64_seqs(rng: &mut Rng) -> Vec<Vec<i64>> {
    let pool = i64_values(rng);
    let mut out = vec![];
    for len in 0..=9usize {
        out.push((0..len).map(|i| pool[(len * 7 + i * 3) % pool.len()]).collect());
        let base = rng.below(1000) as i64 - 500;
        out.push((0..len).map(|i| base + (i as i64) * 3).collect());
        out.push((0..len).map(|i| 500 - (i as i64) * 777).collect());
        // zigzag images on both sides of the 1/2/3/4-byte group-varint widths
        let zz = [0i64, -1, 127, -128, 128, -129, 32767, -32768, 32768, (1 << 23) - 1, -(1 << 23), 1 << 23, (1i64 << 31) - 1, -(1i64 << 31), 1i64 << 31];
        out.push((0..len).map(|i| zz[(i * 4 + len) % zz.len()]).collect());
        out.push((0..len).map(|i| if i % 2 == 0 { i64::MIN } else { i64::MAX }).collect());
        out.push((0..len).map(|i| if i % 2 == 0 { i64::MAX } else { -1 }).collect());
        out.push((0..len).map(|_| rng.next() as i64).collect());
        out.push((0..len).map(|_| rng.below(256) as i64 - 128).collect());
    }
    out
}
fn test_strings(rng: &mut Rng, big: bool) -> Vec<String> {
    let mut v = vec![
        String::new(),
        "a".to_string(),
        "hello".to_string(),
        "h\u{e9}llo w\u{f6}rld \u{2713} \u{65e5}\u{672c}\u{8a9e} \u{1f980}".to_string(),
        "\u{0}".to_string(),
    ];
    let mut lens = vec![127usize, 128, 129];
    if big {
        lens.extend_from_slice(&[16383, 16384, 16385]);
    }
    for n in lens {
        v.push((0..n).map(|i| (b'a' + ((i as u64 * 7 + rng.below(3)) % 26) as u8) as char).collect());
    }
    // non-ASCII with a byte length on the prefix boundary (2-byte characters)
    v.push("\u{e9}".repeat(64));
    v
}

// ---------------------------------------------------------------- VarInt (var_int.rs)

fn varint_items(variant: &str, rng: &mut Rng) -> Vec<Item> {
    let mut items = vec![];
    match variant {
        "write_short" => {
            // the generic io::Write entry point over a writer that takes k bytes per call
            for (j, x) in u64_values(rng).into_iter().enumerate() {
                let k = [1usize, 2, 3, 7][j % 4];
                items.push(Item {
                    codec: format!("varint:write_to/short{k}"),
                    v: vec![x.to_string()],
                    unordered: false,
                    exact: false,
                    enc: Box::new(move |b| {
                        let (mut sink, d) = ShortSink::new(Chunk::Fixed(k));
                        let r = VarInt::write_to(&mut sink, x).map_err(es)?;
                        b.extend_from_slice(&d.borrow());
                        Ok(Some(r))
                    }),
                    dec: Box::new(move |d| {
                        let mut i = ReaderDataInput::new(ShortSrc { inner: Cursor::new(d.to_vec()), chunk: Chunk::Fixed(k), calls: 0, intr_at: Some(2) });
                        let y = VarInt::read_from(&mut i).map_err(es)?;
                        Ok((vec![y.to_string()], Some(i.pos() as usize)))
                    }),
                    len_pred: Some(Box::new(move || VarInt::encoded_len(x))),
                    field: None,
                    tags: vec![],
                    fits: vec![],
                });
            }
        }
        "vec" | "write" | "encode" | "dataio" => {
            for x in u64_values(rng) {
                let var = variant.to_string();
                let enc: EncF = match variant {
                    "vec" => Box::new(move |b| VarInt::write_to_vec(b, x).map(Some).map_err(es)),
                    "write" => Box::new(move |b| VarInt::write_to(b, x).map(Some).map_err(es)),
                    "encode" => Box::new(move |b| {
                        b.extend_from_slice(&VarInt::encode(x));
                        Ok(None)
                    }),
                    _ => Box::new(move |b| {
                        let mut o = VecDataOutput::new();
                        o.write_var_int(x).map_err(es)?;
                        b.extend_from_slice(o.as_slice());
                        Ok(Some(o.len()))
                    }),
                };
                let dec: DecF = match variant {
                    "write" => Box::new(|d| {
                        let mut i = SliceDataInput::new(d);
                        let y = VarInt::read_from(&mut i).map_err(es)?;
                        Ok((vec![y.to_string()], Some(i.pos())))
                    }),
                    "dataio" => Box::new(|d| {
                        let mut i = SliceDataInput::new(d);
                        let y = i.read_var_int().map_err(es)?;
                        Ok((vec![y.to_string()], Some(i.pos())))
                    }),
                    _ => Box::new(|d| VarInt::decode(d).map(|(y, c)| (vec![y.to_string()], Some(c))).map_err(es)),
                };
                items.push(Item {
                    codec: format!("varint:{var}"),
                    v: vec![x.to_string()],
                    unordered: false,
                    exact: false,
                    enc,
                    dec,
                    len_pred: Some(Box::new(move || VarInt::encoded_len(x))),
                    field: None,
                    tags: vec![],
                    fits: vec![(1, Box::new(move || VarInt::fits_in_one_byte(x))), (2, Box::new(move || VarInt::fits_in_two_bytes(x)))],
                });
            }
        }
        "signed" => {
            for x in i64_values(rng) {
                items.push(Item {
                    codec: "varint:signed".into(),
                    v: vec![x.to_string()],
                    unordered: false,
                    exact: false,
                    enc: Box::new(move |b| {
                        b.extend_from_slice(&<VarInt as SignedVarInt>::encode_signed(x));
                        Ok(None)
                    }),
                    dec: Box::new(|d| <VarInt as SignedVarInt>::decode_signed(d).map(|(y, c)| (vec![y.to_string()], Some(c))).map_err(es)),
                    len_pred: None,
                    field: None,
                    tags: vec![],
                    fits: vec![],
                });
            }
        }
        _ => {
            // encode_multiple / decode_multiple: a whole-buffer API
            for s in u64_seqs(rng) {
                let s2 = s.clone();
                items.push(Item {
                    codec: "varint:multiple".into(),
                    v: s.pv(),
                    unordered: false,
                    exact: true,
                    enc: Box::new(move |b| {
                        b.extend_from_slice(&VarInt::encode_multiple(s2.iter().copied()));
                        Ok(None)
                    }),
                    dec: Box::new(|d| VarInt::decode_multiple(d).map(|y| (y.pv(), None)).map_err(es)),
                    len_pred: None,
                    field: None,
                    tags: vec![],
                    fits: vec![],
                });
            }
        }
    }
    items
}

// ---------------------------------------------------------------- VarIntEncoder strategies (var_int_variants.rs)

const STRATEGIES: &[(&str, VarIntStrategy)] = &[
    ("leb128", VarIntStrategy::Leb128),
    ("zigzag", VarIntStrategy::Zigzag),
    ("delta", VarIntStrategy::Delta),
    ("groupvarint", VarIntStrategy::GroupVarint),
    ("prefixfree", VarIntStrategy::PrefixFree),
    ("compact", VarIntStrategy::Compact),
    ("simd", VarIntStrategy::Simd),
];
fn strat_name(s: VarIntStrategy) -> &'static str {
    STRATEGIES.iter().find(|(_, x)| *x == s).map(|(n, _)| *n).unwrap_or("?")
}

/// input characterisation for the deviation guards: "over32" = an element does not fit in 32 bits
/// (as u64), "bigdiff" = two neighbours differ by 2^63 or more
fn seq_tags(s: &[u64]) -> Vec<String> {
    let mut t = vec![];
    if s.iter().any(|&x| x > u32::MAX as u64) {
        t.push("over32".to_string());
    }
    if s.windows(2).any(|w| w[0].abs_diff(w[1]) >= 1u64 << 63) {
        t.push("bigdiff".to_string());
    }
    t
}
/// the named constructor of a strategy (the decoders are built with VarIntEncoder::new)
fn named_encoder(st: VarIntStrategy) -> VarIntEncoder {
    match st {
        VarIntStrategy::Leb128 => VarIntEncoder::leb128(),
        VarIntStrategy::Zigzag => VarIntEncoder::zigzag(),
        VarIntStrategy::Delta => VarIntEncoder::delta(),
        VarIntStrategy::GroupVarint => VarIntEncoder::group_varint(),
        VarIntStrategy::PrefixFree => VarIntEncoder::prefix_free(),
        VarIntStrategy::Compact => VarIntEncoder::compact(),
        VarIntStrategy::Simd => VarIntEncoder::simd(),
    }
}
fn enc_items(st: VarIntStrategy, kind: &str, rng: &mut Rng) -> Vec<Item> {
    let name = strat_name(st);
    let mut items = vec![];
    match kind {
        "u64" => {
            for x in u64_values(rng) {
                items.push(Item {
                    codec: format!("enc:{name}:u64"),
                    v: vec![x.to_string()],
                    unordered: false,
                    exact: false,
                    enc: Box::new(move |b| {
                        b.extend_from_slice(&named_encoder(st).encode_u64(x).map_err(es)?);
                        Ok(None)
                    }),
                    dec: Box::new(move |d| VarIntEncoder::new(st).decode_u64(d).map(|(y, c)| (vec![y.to_string()], Some(c))).map_err(es)),
                    len_pred: None,
                    field: None,
                    tags: vec![],
                    fits: vec![],
                });
            }
        }
        "i64" => {
            for x in i64_values(rng) {
                items.push(Item {
                    codec: format!("enc:{name}:i64"),
                    v: vec![x.to_string()],
                    unordered: false,
                    exact: false,
                    enc: Box::new(move |b| {
                        b.extend_from_slice(&named_encoder(st).encode_i64(x).map_err(es)?);
                        Ok(None)
                    }),
                    dec: Box::new(move |d| VarIntEncoder::new(st).decode_i64(d).map(|(y, c)| (vec![y.to_string()], Some(c))).map_err(es)),
                    len_pred: None,
                    field: None,
                    tags: vec![],
                    fits: vec![],
                });
            }
        }
        "seq-u64" => {
            for s in u64_seqs(rng) {
                let s2 = s.clone();
                items.push(Item {
                    codec: format!("encseq:{name}:u64"),
                    v: s.pv(),
                    unordered: false,
                    exact: false,
                    enc: Box::new(move |b| {
                        b.extend_from_slice(&named_encoder(st).encode_u64_sequence(&s2).map_err(es)?);
                        Ok(None)
                    }),
                    dec: Box::new(move |d| VarIntEncoder::new(st).decode_u64_sequence(d).map(|y| (y.pv(), None)).map_err(es)),
                    len_pred: None,
                    field: None,
                    tags: seq_tags(&s),
                    fits: vec![],
                });
            }
        }
        _ => {
            for s in i64_seqs(rng) {
                let s2 = s.clone();
                items.push(Item {
                    codec: format!("encseq:{name}:i64"),
                    v: s.pv(),
                    unordered: false,
                    exact: false,
                    enc: Box::new(move |b| {
                        b.extend_from_slice(&named_encoder(st).encode_i64_sequence(&s2).map_err(es)?);
                        Ok(None)
                    }),
                    dec: Box::new(move |d| VarIntEncoder::new(st).decode_i64_sequence(d).map(|y| (y.pv(), None)).map_err(es)),
                    len_pred: None,
                    field: None,
                    tags: seq_tags(&s.iter().map(|&x| x as u64).collect::<Vec<_>>()),
                    fits: vec![],
                });
            }
        }
    }
    items
}
/// the strategy is picked by choose_optimal_strategy(_signed) for each sequence
fn auto_items(signed: bool, rng: &mut Rng) -> Vec<Item> {
    let mut items = vec![];
    if !signed {
        let mut seqs = u64_seqs(rng);
        // long sequences so that every branch of the chooser is taken
        seqs.push((0..20).map(|i| i * 3).collect());
        seqs.push((0..20).map(|i| (i * 0x1_0000_0001u64) ^ 0xffff).collect());
        seqs.push((0..17).map(|i| if i == 16 { (1u64 << 32) - 1 } else { i }).collect());
        // on both sides of every threshold of the chooser: 16 elements below / at 2^32, sorted runs of 6 / 7
        seqs.push((0..15).map(|i| 1000 - i * 3).collect());
        seqs.push((0..16).map(|i| 1000 - i * 3).collect());
        seqs.push((0..16).map(|i| if i == 3 { 1u64 << 32 } else { 500 - i }).collect());
        seqs.push((0..6).map(|i| i * 1000).collect());
        seqs.push((0..7).map(|i| i * 1000).collect());
        seqs.push((0..7).map(|i| i * (1u64 << 61)).collect());
        seqs.push((0..5).map(|i| 255 - i).collect());
        seqs.push((0..5).map(|i| 256 - i).collect());
        for s in seqs {
            let st = choose_optimal_strategy(&s);
            let s2 = s.clone();
            items.push(Item {
                codec: format!("encseq:auto>{}:u64", strat_name(st)),
                v: s.pv(),
                unordered: false,
                exact: false,
                enc: Box::new(move |b| {
                    b.extend_from_slice(&VarIntEncoder::new(st).encode_u64_sequence(&s2).map_err(es)?);
                    Ok(None)
                }),
                dec: Box::new(move |d| VarIntEncoder::new(st).decode_u64_sequence(d).map(|y| (y.pv(), None)).map_err(es)),
                len_pred: None,
                field: None,
                tags: seq_tags(&s),
                fits: vec![],
            });
        }
    } else {
        let mut seqs = i64_seqs(rng);
        seqs.push((0..20).map(|i| i * 3 - 30).collect());
        seqs.push((0..8).map(|i| i64::MIN / 2 + i * (i64::MAX / 4)).collect());
        seqs.push((0..5).map(|i| i * 100 - 200).collect());
        seqs.push((0..6).map(|i| i * 100 - 200).collect());
        seqs.push((0..6).map(|i| i64::MIN + i * (i64::MAX / 3)).collect());
        seqs.push((0..4).map(|i| 255 - i).collect());
        seqs.push((0..4).map(|i| 256 - i).collect());
        for s in seqs {
            let st = choose_optimal_strategy_signed(&s);
            let s2 = s.clone();
            items.push(Item {
                codec: format!("encseq:auto>{}:i64", strat_name(st)),
                v: s.pv(),
                unordered: false,
                exact: false,
                enc: Box::new(move |b| {
                    b.extend_from_slice(&VarIntEncoder::new(st).encode_i64_sequence(&s2).map_err(es)?);
                    Ok(None)
                }),
                dec: Box::new(move |d| VarIntEncoder::new(st).decode_i64_sequence(d).map(|y| (y.pv(), None)).map_err(es)),
                len_pred: None,
                field: None,
                tags: seq_tags(&s.iter().map(|&x| x as u64).collect::<Vec<_>>()),
                fits: vec![],
            });
        }
    }
    items
}

// ---------------------------------------------------------------- SIMD batch varint (simd_encoding/varint.rs)

fn simd_seqs(rng: &mut Rng, thorough: bool) -> Vec<Vec<u64>> {
    let mut seqs = u64_seqs(rng);
    let pool = u64_values(rng);
    for len in [10usize, 15, 16, 17, 31, 32, 33, 40, 64, 100, 1000] {
        seqs.push((0..len).map(|i| pool[(i * 7 + len) % pool.len()]).collect());
        seqs.push((0..len).map(|_| rng.below(128)).collect());
        seqs.push((0..len).map(|_| rng.next()).collect());
    }
    if thorough {
        for len in [4usize, 5, 8, 4096, 20000] {
            seqs.push((0..len).map(|_| rng.next() >> rng.below(64)).collect());
        }
    }
    seqs
}
fn simd_items(variant: &str, rng: &mut Rng, thorough: bool) -> Vec<Item> {
    let mut items = vec![];
    match variant {
        "single" | "global_single" | "global_codec_single" => {
            let global = variant == "global_single";
            if variant == "global_codec_single" {
                for x in u64_values(rng) {
                    items.push(Item {
                        codec: "simd:global_codec_single".into(),
                        v: vec![x.to_string()],
                        unordered: false,
                        exact: false,
                        enc: Box::new(move |b| {
                            b.extend_from_slice(&zipora::io::simd_encoding::varint::get_global_varint_codec().encode_single(x).map_err(es)?);
                            Ok(None)
                        }),
                        dec: Box::new(|d| zipora::io::simd_encoding::varint::get_global_varint_codec().decode_single(d).map(|(y, c)| (vec![y.to_string()], Some(c))).map_err(es)),
                        len_pred: None,
                        field: None,
                        tags: vec![],
                        fits: vec![],
                    });
                }
                return items;
            }
            for x in u64_values(rng) {
                items.push(Item {
                    codec: format!("simd:{variant}"),
                    v: vec![x.to_string()],
                    unordered: false,
                    exact: false,
                    enc: Box::new(move |b| {
                        let e = if global { zipora::io::simd_encoding::encode_varint(x) } else { SimdVarintCodec::new().encode_single(x) };
                        b.extend_from_slice(&e.map_err(es)?);
                        Ok(None)
                    }),
                    dec: Box::new(move |d| {
                        let r = if global { zipora::io::simd_encoding::decode_varint(d) } else { SimdVarintCodec::new().decode_single(d) };
                        r.map(|(y, c)| (vec![y.to_string()], Some(c))).map_err(es)
                    }),
                    len_pred: None,
                    field: None,
                    tags: vec![],
                    fits: vec![],
                });
            }
        }
        _ => {
            let global = variant == "global_batch";
            for s in simd_seqs(rng, thorough) {
                let s2 = s.clone();
                let n = s.len();
                // long sequences are projected through a digest of their decimal rendering
                let proj = |y: &Vec<u64>| -> Vec<String> {
                    if y.len() <= 40 {
                        y.pv()
                    } else {
                        vec![format!("vec{}", y.len()), dg(y.iter().map(|x| x.to_string()).collect::<Vec<_>>().join(",").as_bytes())]
                    }
                };
                items.push(Item {
                    codec: format!("simd:{variant}"),
                    v: proj(&s),
                    unordered: false,
                    exact: false,
                    enc: Box::new(move |b| {
                        let e = if global { zipora::io::simd_encoding::encode_varint_batch(&s2) } else { SimdVarintCodec::new().encode_batch(&s2) };
                        b.extend_from_slice(&e.map_err(es)?);
                        Ok(None)
                    }),
                    dec: Box::new(move |d| {
                        let r = if global { zipora::io::simd_encoding::decode_varint_batch(d, n) } else { SimdVarintCodec::new().decode_batch(d, n) };
                        r.map(|y| (proj(&y), None)).map_err(es)
                    }),
                    len_pred: None,
                    field: None,
                    tags: vec![],
                    fits: vec![],
                });
            }
        }
    }
    items
}
/// batch output vs the scalar codec, byte for byte (both logged; TLC compares)
fn simd_batch_eq(cx: &mut Cx, rng: &mut Rng) {
    let subject = "simd:batch_eq";
    cx.reset(subject, json!({}));
    let codec = SimdVarintCodec::new();
    let thorough = cx.a.thorough();
    for s in simd_seqs(rng, thorough) {
        let r = guard(|| {
            let batch = codec.encode_batch(&s).map_err(es)?;
            let scalar = VarInt::encode_multiple(s.iter().copied());
            let mut singles = vec![];
            for &x in &s {
                singles.extend_from_slice(&codec.encode_single(x).map_err(es)?);
            }
            let mut enc = vec![];
            for &x in &s {
                enc.extend_from_slice(&VarIntEncoder::leb128().encode_u64(x).map_err(es)?);
            }
            Ok::<_, String>((batch, scalar, singles, enc))
        });
        match r {
            Ok(Ok((batch, scalar, singles, enc))) => {
                let small = batch.len() <= 48;
                let pj = |b: &[u8]| if small { bytes_json(b) } else { digest(b) };
                cx.ev(subject, json!({"op":"batch_eq","what":"encode_batch vs VarInt::encode_multiple","n":s.len(),"batch":pj(&batch),"scalar":pj(&scalar)}));
                cx.ev(subject, json!({"op":"batch_eq","what":"encode_batch vs encode_single*","n":s.len(),"batch":pj(&batch),"scalar":pj(&singles)}));
                cx.ev(subject, json!({"op":"batch_eq","what":"encode_batch vs VarIntEncoder::leb128","n":s.len(),"batch":pj(&batch),"scalar":pj(&enc)}));
                if !s.is_empty() {
                    cx.case(subject, &dg(&batch));
                }
            }
            Ok(Err(m)) => cx.ev(subject, json!({"op":"write_refused","codec":"simd:batch","msg":m})),
            Err(m) => {
                cx.ev(subject, json!({"op":"panic","in":"encode_batch","msg":m}));
                return;
            }
        }
    }
}

// ---------------------------------------------------------------- endian conversion (endian.rs)

fn endian_item<T: EndianConvert + P + 'static>(tname: &str, ename: &str, e: Endianness, x: T) -> Item {
    let sz = std::mem::size_of::<T>();
    Item {
        codec: format!("endian:{ename}:{tname}"),
        v: x.pv(),
        unordered: false,
        exact: false,
        enc: Box::new(move |b| {
            let mut buf = vec![0xA5u8; sz];
            // the named constructors on the writing side, EndianIO::new on the reading side
            let io = match e {
                Endianness::Little => EndianIO::<T>::little_endian(),
                Endianness::Big => EndianIO::<T>::big_endian(),
                Endianness::Native => EndianIO::<T>::native_endian(),
            };
            io.write_to_bytes(x, &mut buf).map_err(es)?;
            b.extend_from_slice(&buf);
            Ok(None)
        }),
        dec: Box::new(move |d| EndianIO::<T>::new(e).read_from_bytes(d).map(|y| (y.pv(), None)).map_err(es)),
        len_pred: None,
        field: None,
        tags: vec![],
        fits: vec![],
    }
}
fn endian_items(ename: &str, e: Endianness, rng: &mut Rng) -> Vec<Item> {
    let mut it = vec![];
    let us = u64_values(rng);
    let is = i64_values(rng);
    for (k, &x) in us.iter().enumerate() {
        it.push(endian_item("u64", ename, e, x));
        it.push(endian_item("u32", ename, e, x as u32));
        it.push(endian_item("u16", ename, e, x as u16));
        it.push(endian_item("u8", ename, e, x as u8));
        it.push(endian_item("usize", ename, e, x as usize));
        it.push(endian_item("u128", ename, e, ((x as u128) << 64) | us[(k + 1) % us.len()] as u128));
        it.push(endian_item("f64", ename, e, f64::from_bits(x)));
        it.push(endian_item("f32", ename, e, f32::from_bits(x as u32)));
    }
    for (k, &x) in is.iter().enumerate() {
        it.push(endian_item("i64", ename, e, x));
        it.push(endian_item("i32", ename, e, x as i32));
        it.push(endian_item("i16", ename, e, x as i16));
        it.push(endian_item("i8", ename, e, x as i8));
        it.push(endian_item("isize", ename, e, x as isize));
        it.push(endian_item("i128", ename, e, ((x as i128) << 64) | is[(k + 1) % is.len()] as u64 as i128));
    }
    rng.shuffle(&mut it);
    it.truncate(160);
    it
}
/// slice conversions: to_endian then from_endian is the identity (records), and the bulk
/// conversion equals the element-wise one (batch = scalar)
fn endian_slices(cx: &mut Cx, rng: &mut Rng) {
    let subject = "endian:slices";
    cx.reset(subject, json!({}));
    for (ename, e) in [("little", Endianness::Little), ("big", Endianness::Big), ("native", Endianness::Native)] {
        // the predicates the bulk conversions branch on, against the scalar conversion itself
        let swaps = 0x0102u16.to_endian(e) != 0x0102;
        let named = match e {
            Endianness::Little => EndianIO::<u16>::little_endian(),
            Endianness::Big => EndianIO::<u16>::big_endian(),
            Endianness::Native => EndianIO::<u16>::native_endian(),
        };
        cx.ev(subject, json!({"op":"batch_eq","what":format!("Endianness::needs_conversion {ename} vs to_endian changes 0x0102"),"batch":e.needs_conversion(),"scalar":swaps}));
        cx.ev(subject, json!({"op":"batch_eq","what":format!("Endianness::is_native {ename} vs to_endian keeps 0x0102"),"batch":e.is_native(),"scalar":!swaps}));
        cx.ev(subject, json!({"op":"batch_eq","what":format!("EndianIO::needs_conversion {ename}"),"batch":named.needs_conversion(),"scalar":swaps}));
        cx.ev(subject, json!({"op":"batch_eq","what":format!("named constructor {ename} vs EndianIO::new: endianness()"),"batch":format!("{:?}", named.endianness()),"scalar":format!("{:?}", e)}));
        cx.ev(subject, json!({"op":"batch_eq","what":"Endianness::native is native","batch":Endianness::native().is_native(),"scalar":true}));
        for len in [0usize, 1, 3, 7, 8, 9, 16, 17] {
            let vals: Vec<u32> = (0..len).map(|_| rng.next() as u32).collect();
            let io = EndianIO::<u32>::new(e);
            let mut bulk = vals.clone();
            io.convert_slice_to_endian(&mut bulk);
            let scalar: Vec<u32> = vals.iter().map(|v| v.to_endian(e)).collect();
            cx.ev(subject, json!({"op":"batch_eq","what":format!("convert_slice_to_endian {ename} u32 vs to_endian"),"batch":bulk.pv(),"scalar":scalar.pv()}));
            let mut back = bulk.clone();
            io.convert_slice_from_endian(&mut back);
            cx.ev(subject, json!({"op":"batch_eq","what":format!("convert_slice_from_endian(to_endian) {ename} u32 vs input"),"batch":back.pv(),"scalar":vals.pv()}));
            if len > 0 {
                cx.case(subject, &format!("{ename}/{len}"));
            }
        }
    }
    // the SSE bulk conversions against the scalar conversion of the same crate
    #[cfg(target_arch = "x86_64")]
    for from_little in [true, false] {
        let e = if from_little { Endianness::Little } else { Endianness::Big };
        for len in [0usize, 1, 7, 8, 9, 16, 23] {
            let v16: Vec<u16> = (0..len).map(|_| rng.next() as u16).collect();
            let mut b16 = v16.clone();
            endian::simd::convert_u16_slice_simd(&mut b16, from_little);
            let s16: Vec<u16> = v16.iter().map(|v| v.from_endian(e)).collect();
            cx.ev(subject, json!({"op":"batch_eq","what":"convert_u16_slice_simd vs from_endian","from_little":from_little,"n":len,"batch":b16.pv(),"scalar":s16.pv()}));
            let v32: Vec<u32> = (0..len).map(|_| rng.next() as u32).collect();
            let mut b32 = v32.clone();
            endian::simd::convert_u32_slice_simd(&mut b32, from_little);
            let s32: Vec<u32> = v32.iter().map(|v| v.from_endian(e)).collect();
            cx.ev(subject, json!({"op":"batch_eq","what":"convert_u32_slice_simd vs from_endian","from_little":from_little,"n":len,"batch":b32.pv(),"scalar":s32.pv()}));
        }
    }
}
fn endian_magic_items() -> Vec<Item> {
    let name = |e: Endianness| match e {
        Endianness::Little => "Little",
        Endianness::Big => "Big",
        Endianness::Native => "Native",
    };
    let mut it = vec![];
    for e in [Endianness::Little, Endianness::Big, Endianness::Little, Endianness::Big] {
        it.push(Item {
            codec: "endian:magic".into(),
            v: vec![name(e).to_string()],
            unordered: false,
            exact: false,
            enc: Box::new(move |b| {
                b.extend_from_slice(&endian::write_endianness_magic(e).to_ne_bytes());
                Ok(None)
            }),
            dec: Box::new(move |d| {
                if d.len() < 4 {
                    return Err("short".into());
                }
                let m = u32::from_ne_bytes([d[0], d[1], d[2], d[3]]);
                match endian::detect_endianness_from_magic(m) {
                    Some(x) => Ok((vec![name(x).to_string()], Some(4))),
                    None => Err("magic not recognised".into()),
                }
            }),
            len_pred: None,
            field: None,
            tags: vec![],
            fits: vec![],
        });
    }
    it
}

// ---------------------------------------------------------------- DataInput / DataOutput records

type DEnc = Rc<dyn Fn(&mut dyn DataOutput) -> Result<(), String>>;
type DDec = Rc<dyn Fn(&mut dyn DataInput) -> Result<Vec<String>, String>>;

/// a value written through a DataOutput and read back through a DataInput
#[derive(Clone)]
struct DItem {
    codec: String,
    v: Vec<String>,
    unordered: bool,
    enc: DEnc,
    dec: DDec,
    field: Option<Value>,
    tags: Vec<String>,
}
fn to_item(d: &DItem) -> Item {
    let (enc, dec) = (d.enc.clone(), d.dec.clone());
    Item {
        codec: d.codec.clone(),
        v: d.v.clone(),
        unordered: d.unordered,
        exact: false,
        enc: Box::new(move |b| {
            let mut o = VecDataOutput::new();
            enc(&mut o)?;
            b.extend_from_slice(o.as_slice());
            Ok(Some(o.len()))
        }),
        dec: Box::new(move |data| {
            let mut i = SliceDataInput::new(data);
            let v = dec(&mut i)?;
            Ok((v, Some(i.pos())))
        }),
        len_pred: None,
        field: d.field.clone(),
        tags: d.tags.clone(),
        fits: vec![],
    }
}
fn ditem(codec: &str, v: Vec<String>, enc: DEnc, dec: DDec) -> DItem {
    DItem { codec: codec.to_string(), v, unordered: false, enc, dec, field: None, tags: vec![] }
}

/// fixed-width primitives, varints, byte arrays and strings of the DataOutput / DataInput traits
fn prim_ditems(rng: &mut Rng, big: bool) -> Vec<DItem> {
    let mut it = vec![];
    let us = u64_values(rng);
    for &x in us.iter().step_by(if big { 1 } else { 3 }) {
        it.push(ditem("dio:u8", vec![(x as u8).to_string()], Rc::new(move |o| o.write_u8(x as u8).map_err(es)), Rc::new(|i| i.read_u8().map(|y| y.pv()).map_err(es))));
        it.push(ditem("dio:u16", vec![(x as u16).to_string()], Rc::new(move |o| o.write_u16(x as u16).map_err(es)), Rc::new(|i| i.read_u16().map(|y| y.pv()).map_err(es))));
        it.push(ditem("dio:u32", vec![(x as u32).to_string()], Rc::new(move |o| o.write_u32(x as u32).map_err(es)), Rc::new(|i| i.read_u32().map(|y| y.pv()).map_err(es))));
        it.push(ditem("dio:u64", vec![x.to_string()], Rc::new(move |o| o.write_u64(x).map_err(es)), Rc::new(|i| i.read_u64().map(|y| y.pv()).map_err(es))));
        it.push(ditem("dio:var_int", vec![x.to_string()], Rc::new(move |o| o.write_var_int(x).map_err(es)), Rc::new(|i| i.read_var_int().map(|y| y.pv()).map_err(es))));
    }
    let mut lens = vec![0usize, 1, 2, 127, 128, 129, 300];
    if big {
        lens.extend_from_slice(&[16383, 16384, 16385, 70000, 2_097_151, 2_097_152]);
    }
    for n in lens {
        let b = rng.bytes(n);
        let (b1, b2, b3) = (b.clone(), b.clone(), b.clone());
        if n >= 1 << 21 {
            // only the length prefix matters here (3 -> 4 byte varint)
            it.push(ditem(
                "dio:lp_bytes",
                vec![dg(&b)],
                Rc::new(move |o| o.write_length_prefixed_bytes(&b3).map_err(es)),
                Rc::new(|i| i.read_length_prefixed_bytes().map(|y| vec![dg(&y)]).map_err(es)),
            ));
            continue;
        }
        it.push(ditem("dio:bytes/read_vec", vec![dg(&b)], Rc::new(move |o| o.write_bytes(&b1).map_err(es)), Rc::new(move |i| i.read_vec(n).map(|y| vec![dg(&y)]).map_err(es))));
        it.push(ditem(
            "dio:bytes/read_bytes",
            vec![dg(&b)],
            Rc::new(move |o| o.write_bytes(&b2).map_err(es)),
            Rc::new(move |i| {
                let mut buf = vec![0u8; n];
                i.read_bytes(&mut buf).map_err(es)?;
                Ok(vec![dg(&buf)])
            }),
        ));
        it.push(ditem(
            "dio:lp_bytes",
            vec![dg(&b)],
            Rc::new(move |o| o.write_length_prefixed_bytes(&b3).map_err(es)),
            Rc::new(|i| i.read_length_prefixed_bytes().map(|y| vec![dg(&y)]).map_err(es)),
        ));
        it.push(ditem("dio:skip", vec![format!("skip{n}")], Rc::new(move |o| o.write_bytes(&vec![0x5au8; n]).map_err(es)), Rc::new(move |i| i.skip(n).map(|_| vec![format!("skip{n}")]).map_err(es))));
    }
    for s in test_strings(rng, big) {
        let (s1, s2) = (s.clone(), s.clone());
        let n = s.len();
        it.push(ditem("dio:string", s.pv(), Rc::new(move |o| o.write_string(&s1).map_err(es)), Rc::new(move |i| i.read_string(n).map(|y| y.pv()).map_err(es))));
        it.push(ditem("dio:lp_string", s.pv(), Rc::new(move |o| o.write_length_prefixed_string(&s2).map_err(es)), Rc::new(|i| i.read_length_prefixed_string().map(|y| y.pv()).map_err(es))));
    }
    rng.shuffle(&mut it);
    it
}

// ---------------------------------------------------------------- SerializableType / ComplexSerialize / smart pointers

fn ser_item<T: SerializableType + P + 'static>(codec: &str, x: T) -> DItem {
    let v = x.pv();
    ditem(codec, v, Rc::new(move |o| x.serialize(&mut DynOut(o)).map_err(es)), Rc::new(|i| T::deserialize(&mut DynIn(i)).map(|y| y.pv()).map_err(es)))
}
/// mode: "data" (serialize_data / deserialize_with_version), "meta" (with type metadata), "nested"
fn cx_item<T: ComplexSerialize + P + 'static>(codec: &str, x: T, mode: &'static str, unordered: bool) -> DItem {
    let v = x.pv();
    let mut d = ditem(
        &format!("{codec}/{mode}"),
        v,
        Rc::new(move |o| {
            match mode {
                "meta" => x.serialize_with_metadata(&mut DynOut(o)),
                "nested" => x.serialize_nested(&mut DynOut(o), 3),
                _ => x.serialize_data(&mut DynOut(o)),
            }
            .map_err(es)
        }),
        Rc::new(move |i| {
            match mode {
                "meta" => T::deserialize_with_metadata(&mut DynIn(i)),
                "nested" => T::deserialize_nested(&mut DynIn(i), 3),
                _ => T::deserialize_with_version(&mut DynIn(i), T::version()),
            }
            .map(|y| y.pv())
            .map_err(es)
        }),
    );
    d.unordered = unordered;
    d
}

fn complex_ditems(variant: &str, rng: &mut Rng, big: bool) -> Vec<DItem> {
    let strs = test_strings(rng, big);
    let s = |k: usize| strs[k % strs.len()].clone();
    let us = u64_values(rng);
    let u = |k: usize| us[k % us.len()];
    let mut it = vec![];
    for mode in ["data", "meta", "nested"] {
        match variant {
            "tuple" => {
                it.push(cx_item("complex:tuple0", (), mode, false));
                for k in 0..6 {
                    it.push(cx_item("complex:tuple1", (u(k) as u32,), mode, false));
                    it.push(cx_item("complex:tuple2", (u(k + 1), s(k)), mode, false));
                    it.push(cx_item("complex:tuple3", (u(k) as u32, s(k + 2), k % 2 == 0), mode, false));
                    it.push(cx_item("complex:tuple4", (s(k), s(k + 1), u(k) as i64, vec![u(k) as u16, 7]), mode, false));
                }
                it.push(cx_item(
                    "complex:tuple12",
                    (u(3) as u8, u(9) as u16, u(12) as u32, u(30), u(4) as i8, u(8) as i16, u(14) as i32, u(31) as i64, true, s(3), vec![1u32, 2, 3], Some(s(6))),
                    mode,
                    false,
                ));
            }
            "array" => {
                it.push(cx_item("complex:array0", [0u32; 0], mode, false));
                it.push(cx_item("complex:array5", [u(1) as u32, u(5) as u32, u(9) as u32, u(13) as u32, u(30) as u32], mode, false));
                it.push(cx_item("complex:array3s", [s(1), s(3), s(5)], mode, false));
                let mut a = [0u8; 300];
                for (i, x) in a.iter_mut().enumerate() {
                    *x = (i * 7) as u8;
                }
                it.push(cx_item("complex:array300", a, mode, false));
                it.push(cx_item("complex:array2v", [vec![u(1), u(30)], vec![]], mode, false));
            }
            "option" => {
                it.push(cx_item("complex:option", None::<u32>, mode, false));
                it.push(cx_item("complex:option", Some(u(30)), mode, false));
                it.push(cx_item("complex:option", Some(s(3)), mode, false));
                it.push(cx_item("complex:option", Some(String::new()), mode, false));
                it.push(cx_item("complex:option", Some(Some(u(7) as u32)), mode, false));
                it.push(cx_item("complex:option", Some(None::<u32>), mode, false));
                it.push(cx_item("complex:option", Some(vec![Some(s(1)), None, Some(s(5))]), mode, false));
                it.push(cx_item("complex:result", Ok::<u32, String>(u(5) as u32), mode, false));
                it.push(cx_item("complex:result", Err::<u32, String>(s(3)), mode, false));
                it.push(cx_item("complex:result", Ok::<Vec<u64>, u8>(vec![u(30), u(31)]), mode, false));
            }
            _ => {
                let mut hm: HashMap<u32, String> = HashMap::new();
                let mut hs: HashSet<u64> = HashSet::new();
                let mut bm: BTreeMap<String, Vec<u32>> = BTreeMap::new();
                let mut bs: BTreeSet<i64> = BTreeSet::new();
                it.push(cx_item("complex:hashmap", hm.clone(), mode, true));
                it.push(cx_item("complex:hashset", hs.clone(), mode, true));
                it.push(cx_item("complex:btreemap", bm.clone(), mode, false));
                it.push(cx_item("complex:btreeset", bs.clone(), mode, false));
                for k in 0..9 {
                    hm.insert(u(k * 3) as u32, s(k));
                    hs.insert(u(k * 5 + 1));
                    bm.insert(format!("k{}-{}", k, u(k)), vec![u(k) as u32; k % 4]);
                    bs.insert(u(k * 2) as i64 - 1000);
                    if k % 4 == 0 || k == 8 {
                        it.push(cx_item("complex:hashmap", hm.clone(), mode, true));
                        it.push(cx_item("complex:hashset", hs.clone(), mode, true));
                        it.push(cx_item("complex:btreemap", bm.clone(), mode, false));
                        it.push(cx_item("complex:btreeset", bs.clone(), mode, false));
                    }
                }
                let mut nested: BTreeMap<u32, Option<Vec<String>>> = BTreeMap::new();
                nested.insert(1, None);
                nested.insert(u(9) as u32, Some(vec![s(1), s(3)]));
                it.push(cx_item("complex:btreemap-nested", nested, mode, false));
            }
        }
    }
    rng.shuffle(&mut it);
    it
}

/// ComplexTypeSerializer: whole-buffer API (serialize_to_bytes / deserialize_from_bytes, batches)
fn complex_serializer_items(cfgname: &'static str, rng: &mut Rng) -> Vec<Item> {
    let mk = move || {
        ComplexTypeSerializer::new(match cfgname {
            "safe" => ComplexTypeConfig::safe(),
            "fast" => ComplexTypeConfig::fast(),
            "compact" => ComplexTypeConfig::compact(),
            "compatible" => ComplexTypeConfig::compatible(),
            _ => ComplexTypeConfig::new(),
        })
    };
    let strs = test_strings(rng, false);
    let us = u64_values(rng);
    let mut it = vec![];
    fn one<T: ComplexSerialize + P + Clone + 'static>(codec: String, x: T, mk: impl Fn() -> ComplexTypeSerializer + Clone + 'static) -> Item {
        let mk2 = mk.clone();
        let v = x.pv();
        Item {
            codec,
            v,
            unordered: false,
            exact: true,
            enc: Box::new(move |b| {
                b.extend_from_slice(&mk().serialize_to_bytes(&x).map_err(es)?);
                Ok(None)
            }),
            dec: Box::new(move |d| mk2().deserialize_from_bytes::<T>(d).map(|y| (y.pv(), None)).map_err(es)),
            len_pred: None,
            field: None,
            tags: vec![],
            fits: vec![],
        }
    }
    fn batch<T: ComplexSerialize + P + Clone + 'static>(codec: String, xs: Vec<T>, mk: impl Fn() -> ComplexTypeSerializer + Clone + 'static) -> Item {
        let mk2 = mk.clone();
        let v = xs.pv();
        Item {
            codec,
            v,
            unordered: false,
            exact: true,
            enc: Box::new(move |b| {
                b.extend_from_slice(&mk().serialize_batch(&xs).map_err(es)?);
                Ok(None)
            }),
            dec: Box::new(move |d| mk2().deserialize_batch::<T>(d).map(|y| (y.pv(), None)).map_err(es)),
            len_pred: None,
            field: None,
            tags: vec![],
            fits: vec![],
        }
    }
    for k in 0..8 {
        let c = format!("complex:serializer-{cfgname}");
        it.push(one(c.clone(), (us[k * 4] as u32, strs[k % strs.len()].clone(), k % 2 == 1), mk));
        it.push(one(c.clone(), Some(us[k * 3 + 1]), mk));
        it.push(one(c.clone(), [us[k] as u32, us[k + 9] as u32], mk));
        it.push(batch(format!("{c}/batch"), (0..k).map(|j| (us[j * 2 + k] as u32, strs[(j + k) % strs.len()].clone())).collect::<Vec<_>>(), mk));
        it.push(batch(format!("{c}/batch"), (0..k).map(|j| if j % 2 == 0 { Some(us[j + k]) } else { None }).collect::<Vec<_>>(), mk));
    }
    rng.shuffle(&mut it);
    it
}

fn smart_ditems(variant: &str, rng: &mut Rng) -> Vec<DItem> {
    let strs = test_strings(rng, false);
    let s = |k: usize| strs[k % strs.len()].clone();
    let us = u64_values(rng);
    let u = |k: usize| us[k % us.len()];
    let mut it = vec![];
    fn sp<T: SerializableType + 'static, Q: SmartPtrSerialize<T> + P + 'static>(codec: &str, x: Q) -> DItem {
        let v = x.pv();
        ditem(
            codec,
            v,
            Rc::new(move |o| <Q as SmartPtrSerialize<T>>::serialize(&x, &mut DynOut(o)).map_err(es)),
            Rc::new(|i| <Q as SmartPtrSerialize<T>>::deserialize(&mut DynIn(i)).map(|y| y.pv()).map_err(es)),
        )
    }
    match variant {
        "box" => {
            for k in 0..8 {
                it.push(sp::<u32, _>("smart:box<u32>", Box::new(u(k * 3) as u32)));
                it.push(sp::<u64, _>("smart:box<u64>", Box::new(u(k * 4 + 1))));
                it.push(sp::<String, _>("smart:box<string>", Box::new(s(k))));
                it.push(sp::<Vec<u64>, _>("smart:box<vec>", Box::new(vec![u(k); k % 4])));
                it.push(sp::<Box<i64>, _>("smart:box<box>", Box::new(Box::new(u(k + 30) as i64))));
                it.push(sp::<u32, _>("smart:option<box>", Some(Box::new(u(k) as u32))));
                it.push(sp::<u32, Option<Box<u32>>>("smart:option<box>", None));
                it.push(ser_item("smart:vec<box>", vec![Box::new(s(k)), Box::new(s(k + 1))]));
            }
        }
        "rc" => {
            for k in 0..8 {
                it.push(sp::<u32, _>("smart:rc<u32>", Rc::new(u(k * 3) as u32)));
                it.push(sp::<String, _>("smart:rc<string>", Rc::new(s(k))));
                it.push(sp::<Vec<Rc<String>>, _>("smart:rc<vec<rc>>", Rc::new(vec![Rc::new(s(k)), Rc::new(s(k + 2))])));
                it.push(sp::<u64, _>("smart:arc<u64>", Arc::new(u(k * 2 + 1))));
                it.push(sp::<String, _>("smart:arc<string>", Arc::new(s(k + 1))));
                it.push(ser_item("smart:vec<rc>", vec![Rc::new(u(k) as i32), Rc::new(-(k as i32))]));
                // the same Rc twice in one container (each element has its own context)
                let shared = Rc::new(s(k));
                it.push(ser_item("smart:vec<rc>-shared", vec![shared.clone(), shared.clone(), shared]));
            }
        }
        _ => {}
    }
    rng.shuffle(&mut it);
    it
}

/// Weak pointers: the pointee cannot be observed after deserialisation (no strong owner survives),
/// so the value is projected to a constant and only "decodes" + "consumes its own bytes" is judged
fn smart_weak_items(rng: &mut Rng) -> Vec<Item> {
    let mut it = vec![];
    for k in 0..10u32 {
        let live = k % 3 != 2;
        let strong = Rc::new(rng.next() as u32);
        let weak = Rc::downgrade(&strong);
        let keep = if live { Some(strong) } else { None };
        it.push(Item {
            codec: format!("smart:weak<rc>/{}", if live { "live" } else { "dangling" }),
            v: vec!["weak".into()],
            unordered: false,
            exact: false,
            enc: Box::new(move |b| {
                let _alive = &keep;
                let mut o = VecDataOutput::new();
                <std::rc::Weak<u32> as SmartPtrSerialize<u32>>::serialize(&weak, &mut o).map_err(es)?;
                b.extend_from_slice(o.as_slice());
                Ok(None)
            }),
            dec: Box::new(|d| {
                let mut i = SliceDataInput::new(d);
                <std::rc::Weak<u32> as SmartPtrSerialize<u32>>::deserialize(&mut i).map_err(es)?;
                Ok((vec!["weak".into()], Some(i.pos())))
            }),
            len_pred: None,
            field: None,
            tags: vec![],
            fits: vec![],
        });
        let astrong = Arc::new(rng.next());
        let aweak = Arc::downgrade(&astrong);
        let akeep = if live { Some(astrong) } else { None };
        it.push(Item {
            codec: format!("smart:weak<arc>/{}", if live { "live" } else { "dangling" }),
            v: vec!["weak".into()],
            unordered: false,
            exact: false,
            enc: Box::new(move |b| {
                let _alive = &akeep;
                let mut o = VecDataOutput::new();
                <std::sync::Weak<u64> as SmartPtrSerialize<u64>>::serialize(&aweak, &mut o).map_err(es)?;
                b.extend_from_slice(o.as_slice());
                Ok(None)
            }),
            dec: Box::new(|d| {
                let mut i = SliceDataInput::new(d);
                <std::sync::Weak<u64> as SmartPtrSerialize<u64>>::deserialize(&mut i).map_err(es)?;
                Ok((vec!["weak".into()], Some(i.pos())))
            }),
            len_pred: None,
            field: None,
            tags: vec![],
            fits: vec![],
        });
    }
    it
}

/// one SerializationContext / DeserializationContext shared by all records of the run:
/// a pointer seen before is written as a back reference.  temp = the pointers are temporaries
/// created for the call (every value is a different object)
fn smart_ctx_items(rng: &mut Rng, temp: bool, cycle_detection: bool) -> Vec<Item> {
    let sctx = Rc::new(RefCell::new(if cycle_detection { SerializationContext::new() } else { SerializationContext::without_cycle_detection() }));
    let dctx: Rc<RefCell<DeserializationContext<Rc<String>>>> = Rc::new(RefCell::new(DeserializationContext::new()));
    let pool: Vec<Rc<String>> = (0..4).map(|k| Rc::new(format!("shared-{k}-{}", rng.below(1000)))).collect();
    let mut it = vec![];
    for k in 0..14usize {
        if !temp && (k == 5 || k == 9) {
            // SerializationContext::clear / DeserializationContext::clear at the same point of the
            // stream: what follows must be self-contained again (ids restart, no dangling back reference)
            let (sc, dc) = (sctx.clone(), dctx.clone());
            it.push(Item {
                codec: "smart:ctx/clear".into(),
                v: vec!["ctx-clear".into()],
                unordered: false,
                exact: false,
                enc: Box::new(move |_b| {
                    sc.borrow_mut().clear();
                    Ok(Some(0))
                }),
                dec: Box::new(move |_d| {
                    dc.borrow_mut().clear();
                    if dc.borrow().get_object(1).is_some() {
                        return Err("object 1 survives clear()".into());
                    }
                    Ok((vec!["ctx-clear".into()], Some(0)))
                }),
                len_pred: None,
                field: None,
                tags: vec![],
                fits: vec![],
            });
        }
        let val: Rc<String> = if temp { Rc::new(format!("temp-{k}-{}", rng.below(1000))) } else { pool[(rng.below(4)) as usize].clone() };
        let text: String = (*val).clone();
        let (sc, dc) = (sctx.clone(), dctx.clone());
        let held = if temp { None } else { Some(val) };
        it.push(Item {
            codec: format!("smart:ctx/{}", if temp { "temp" } else { "shared" }),
            v: text.pv(),
            unordered: false,
            exact: false,
            enc: Box::new(move |b| {
                let mut o = VecDataOutput::new();
                match &held {
                    Some(rc) => rc.serialize_with_context(&mut o, &mut sc.borrow_mut()),
                    None => Rc::new(text.clone()).serialize_with_context(&mut o, &mut sc.borrow_mut()),
                }
                .map_err(es)?;
                b.extend_from_slice(o.as_slice());
                Ok(None)
            }),
            dec: Box::new(move |d| {
                let mut i = SliceDataInput::new(d);
                let y = <Rc<String> as SmartPtrSerialize<String>>::deserialize_with_context(&mut i, &mut dc.borrow_mut()).map_err(es)?;
                Ok((y.pv(), Some(i.pos())))
            }),
            len_pred: None,
            field: None,
            tags: vec![],
            fits: vec![],
        });
    }
    it
}

fn smart_serializer_items(cfgname: &'static str, rng: &mut Rng) -> Vec<Item> {
    let mk = move || {
        SmartPtrSerializer::new(match cfgname {
            "performance" => SmartPtrConfig::performance_optimized(),
            "space" => SmartPtrConfig::space_optimized(),
            "robust" => SmartPtrConfig::robust(),
            _ => SmartPtrConfig::new(),
        })
    };
    let strs = test_strings(rng, false);
    let us = u64_values(rng);
    let mut it = vec![];
    fn one<T: SerializableType + 'static, Q: SmartPtrSerialize<T> + P + 'static>(codec: String, x: Q, mk: impl Fn() -> SmartPtrSerializer + Clone + 'static) -> Item {
        let mk2 = mk.clone();
        let v = x.pv();
        Item {
            codec,
            v,
            unordered: false,
            exact: true,
            enc: Box::new(move |b| {
                b.extend_from_slice(&mk().serialize_to_bytes::<T, Q>(&x).map_err(es)?);
                Ok(None)
            }),
            dec: Box::new(move |d| mk2().deserialize_from_bytes::<T, Q>(d).map(|y| (y.pv(), None)).map_err(es)),
            len_pred: None,
            field: None,
            tags: vec![],
            fits: vec![],
        }
    }
    for k in 0..6 {
        let c = format!("smart:serializer-{cfgname}");
        it.push(one::<u32, _>(c.clone(), Box::new(us[k * 5] as u32), mk));
        it.push(one::<String, _>(c.clone(), Rc::new(strs[k % strs.len()].clone()), mk));
        it.push(one::<u64, _>(c.clone(), Arc::new(us[k * 2 + 7]), mk));
        it.push(one::<Vec<Rc<u32>>, _>(c.clone(), Rc::new(vec![Rc::new(k as u32), Rc::new(us[k] as u32)]), mk));
    }
    it
}

// ---------------------------------------------------------------- versioning

fn vj(v: Version) -> Value {
    json!([v.major(), v.minor(), v.patch()])
}

#[derive(Clone, Debug)]
struct VRec {
    id: u32,
    name: String,
    extra: Option<u64>,
}
impl P for VRec {
    fn p(&self, o: &mut Vec<String>) {
        o.push("vrec".into());
        self.id.p(o);
        self.name.p(o);
        self.extra.p(o);
    }
}
impl VersionedSerialize for VRec {
    fn current_version() -> Version {
        Version::new(1, 2, 0)
    }
    fn serialize_with_manager<O: DataOutput>(&self, m: &mut VersionManager, o: &mut O) -> ZResult<()> {
        m.register_field("extra", Version::new(1, 1, 0));
        m.serialize_field("id", &self.id, o)?;
        m.serialize_field("name", &self.name, o)?;
        m.serialize_field("extra", &self.extra.unwrap_or(0), o)
    }
    fn deserialize_with_manager<I: DataInput>(m: &mut VersionManager, i: &mut I) -> ZResult<Self> {
        m.register_field("extra", Version::new(1, 1, 0));
        let id = m.deserialize_field::<u32, _>("id", i)?.unwrap_or(0);
        let name = m.deserialize_field::<String, _>("name", i)?.unwrap_or_default();
        let extra = m.deserialize_field::<u64, _>("extra", i)?;
        Ok(VRec { id, name, extra })
    }
}

fn version_ditems(variant: &str, rng: &mut Rng) -> Vec<DItem> {
    let strs = test_strings(rng, false);
    let us = u64_values(rng);
    let mut it = vec![];
    match variant {
        "version" => {
            for (a, b, c) in [(0u16, 0u16, 0u16), (1, 2, 3), (1, 0, 0), (255, 255, 65535), (2, 17, 40000), (256, 0, 0), (1, 256, 0), (300, 300, 300), (65535, 65535, 65535)] {
                let mut d = ser_item("ver:version", Version::new(a, b, c));
                if a > 255 || b > 255 {
                    d.tags.push("over8".into());
                }
                it.push(d);
                // the packed u32 form is documented as 8/8/16 bits: judged inside that domain only
                if a <= 255 && b <= 255 {
                    let v = Version::new(a, b, c);
                    it.push(ditem(
                        "ver:to_u32/from_u32",
                        v.pv(),
                        Rc::new(move |o| o.write_u32(v.to_u32()).map_err(es)),
                        Rc::new(|i| i.read_u32().map(|p| Version::from_u32(p).pv()).map_err(es)),
                    ));
                }
            }
            for k in 0..5 {
                // VersionProxy<T> as a plain serialisable value
                let x = us[k * 6 + 2];
                it.push(ditem(
                    "ver:proxy-as-value",
                    x.pv(),
                    Rc::new(move |o| VersionProxy::new(x, Version::new(1, 0, 0)).serialize(&mut DynOut(o)).map_err(es)),
                    Rc::new(|i| <VersionProxy<u64> as SerializableType>::deserialize(&mut DynIn(i)).map(|p| p.into_data().pv()).map_err(es)),
                ));
            }
        }
        "field" => {
            let vs = [Version::new(1, 0, 0), Version::new(1, 2, 0), Version::new(2, 0, 0), Version::new(1, 2, 7)];
            let fvs = [Version::new(0, 0, 0), Version::new(1, 0, 0), Version::new(1, 1, 0), Version::new(1, 2, 0), Version::new(1, 3, 0), Version::new(2, 1, 0)];
            let mut k = 0usize;
            for &wv in &vs {
                for &fv in &fvs {
                    for &rv in &vs {
                        k += 1;
                        let unregistered = fv == Version::new(0, 0, 0);
                        let fld = json!({"wv": vj(wv), "fv": vj(fv), "rv": vj(rv), "mx": []});
                        let mkw = move || {
                            let mut m = VersionManager::new(wv);
                            if !unregistered {
                                m.register_field("f", fv);
                            }
                            m
                        };
                        let mkr = move || {
                            let mut m = VersionManager::new(wv);
                            if !unregistered {
                                m.register_field("f", fv);
                            }
                            m.set_reading_version(rv);
                            m
                        };
                        let mut d = match k % 3 {
                            0 => {
                                let x = us[k % us.len()] as u32;
                                ditem(
                                    "ver:field<u32>",
                                    x.pv(),
                                    Rc::new(move |o| mkw().serialize_field("f", &x, &mut DynOut(o)).map_err(es)),
                                    Rc::new(move |i| mkr().deserialize_field::<u32, _>("f", &mut DynIn(i)).map(|y| y.pv()).map_err(es)),
                                )
                            }
                            1 => {
                                let x = strs[k % strs.len()].clone();
                                let xv = x.pv();
                                ditem(
                                    "ver:field<string>",
                                    xv,
                                    Rc::new(move |o| mkw().serialize_field("f", &x, &mut DynOut(o)).map_err(es)),
                                    Rc::new(move |i| mkr().deserialize_field::<String, _>("f", &mut DynIn(i)).map(|y| y.pv()).map_err(es)),
                                )
                            }
                            _ => {
                                let x = vec![us[k % us.len()], us[(k * 7) % us.len()]];
                                let xv = x.pv();
                                ditem(
                                    "ver:field<vec>",
                                    xv,
                                    Rc::new(move |o| mkw().serialize_field("f", &x, &mut DynOut(o)).map_err(es)),
                                    Rc::new(move |i| mkr().deserialize_field::<Vec<u64>, _>("f", &mut DynIn(i)).map(|y| y.pv()).map_err(es)),
                                )
                            }
                        };
                        d.field = Some(fld);
                        it.push(d);
                    }
                }
            }
        }
        "proxy" => {
            let vs = [Version::new(1, 0, 0), Version::new(1, 2, 0), Version::new(1, 3, 0), Version::new(2, 0, 0)];
            let mut k = 0usize;
            for &cur in &vs {
                for &min in &vs {
                    for mx in [None, Some(Version::new(1, 2, 0)), Some(Version::new(1, 3, 0))] {
                        k += 1;
                        let x = us[(k * 5) % us.len()];
                        let fld = json!({"wv": vj(cur), "fv": vj(min), "rv": vj(cur), "mx": mx.map(|m| vec![vj(m)]).unwrap_or_default()});
                        let mut d = ditem(
                            "ver:proxy",
                            x.pv(),
                            Rc::new(move |o| {
                                let p = match mx {
                                    None => VersionProxy::new(x, min),
                                    Some(m) => VersionProxy::with_range(x, min, m),
                                };
                                VersionManager::new(cur).serialize_proxy(&p, &mut DynOut(o)).map_err(es)
                            }),
                            Rc::new(move |i| {
                                VersionManager::new(cur)
                                    .deserialize_proxy::<u64, _>(min, &mut DynIn(i))
                                    .map(|y| {
                                        y.map(|mut p| {
                                            // three accessors of the same payload
                                            let a = *p.data();
                                            let b = *p.data_mut();
                                            let c = p.into_data();
                                            if a != b || b != c {
                                                panic!("VersionProxy accessors disagree");
                                            }
                                            c
                                        })
                                        .pv()
                                    })
                                    .map_err(es)
                            }),
                        );
                        d.field = Some(fld);
                        it.push(d);
                    }
                }
            }
        }
        _ => {
            // the VersionedSerialize trait methods on a harness-defined record
            for k in 0..10usize {
                let r = VRec { id: us[k * 3] as u32, name: strs[k % strs.len()].clone(), extra: Some(us[k * 2 + 5]) };
                let rv = r.pv();
                it.push(ditem(
                    "ver:versioned-trait",
                    rv,
                    Rc::new(move |o| r.serialize_versioned(&mut DynOut(o)).map_err(es)),
                    Rc::new(|i| VRec::deserialize_versioned(&mut DynIn(i)).map(|y| y.pv()).map_err(es)),
                ));
            }
        }
    }
    rng.shuffle(&mut it);
    it
}
/// the predicates the versioned-field mechanism is built from; TLC evaluates the definitions
fn version_preds(cx: &mut Cx) {
    let subject = "ver:preds";
    cx.reset(subject, json!({}));
    let vs = [
        Version::new(0, 0, 0), Version::new(1, 0, 0), Version::new(1, 0, 1), Version::new(1, 1, 0), Version::new(1, 2, 0), Version::new(1, 2, 7),
        Version::new(1, 3, 0), Version::new(2, 0, 0), Version::new(2, 1, 0), Version::new(0, 9, 9), Version::new(1, 255, 0), Version::new(1, 0, 65535),
    ];
    let mut n = 0usize;
    for &a in &vs {
        for &b in &vs {
            cx.ev(subject, json!({"op":"ver_pred","kind":"supports","api":"Version::supports_feature","a":vj(a),"b":vj(b),"mx":[],"r":a.supports_feature(&b)}));
            cx.ev(subject, json!({"op":"ver_pred","kind":"compatible","api":"Version::is_compatible_with","a":vj(a),"b":vj(b),"mx":[],"r":a.is_compatible_with(&b)}));
            // the manager: current version a, field registered at b
            let mut m = VersionManager::new(a);
            m.register_field("f", b);
            cx.ev(subject, json!({"op":"ver_pred","kind":"supports","api":"should_serialize_field","a":vj(a),"b":vj(b),"mx":[],"r":m.should_serialize_field("f")}));
            cx.ev(subject, json!({"op":"ver_pred","kind":"supports","api":"should_deserialize_field (no reading version)","a":vj(m.reading_version()),"b":vj(b),"mx":[],"r":m.should_deserialize_field("f")}));
            let rv = vs[(n * 5 + 3) % vs.len()];
            m.set_reading_version(rv);
            cx.ev(subject, json!({"op":"ver_pred","kind":"supports","api":"should_deserialize_field","a":vj(m.reading_version()),"b":vj(b),"mx":[],"r":m.should_deserialize_field("f")}));
            cx.ev(subject, json!({"op":"batch_eq","what":"reading_version() after set_reading_version","batch":vj(m.reading_version()),"scalar":vj(rv)}));
            cx.ev(subject, json!({"op":"batch_eq","what":"current_version()","batch":vj(m.current_version()),"scalar":vj(a)}));
            cx.ev(subject, json!({"op":"batch_eq","what":"unregistered field is serialised","batch":m.should_serialize_field("other") && m.should_deserialize_field("other"),"scalar":true}));
            // proxies: version a, lower bound b, optional upper bound
            cx.ev(subject, json!({"op":"ver_pred","kind":"proxy","api":"VersionProxy::should_serialize","a":vj(a),"b":vj(b),"mx":[],"r":VersionProxy::new(0u8, b).should_serialize(&a)}));
            let mx = vs[(n * 7 + 1) % vs.len()];
            cx.ev(subject, json!({"op":"ver_pred","kind":"proxy","api":"VersionProxy::should_serialize (range)","a":vj(a),"b":vj(b),"mx":[vj(mx)],"r":VersionProxy::with_range(0u8, b, mx).should_serialize(&a)}));
            n += 1;
            cx.case(subject, &format!("{a}/{b}"));
        }
    }
}

/// an older layout of VRec (no `extra` field), version 1.0.0 / 1.1.0
#[derive(Clone, Debug)]
struct VRecOld<const MINOR: u16> {
    id: u32,
    name: String,
}
impl<const MINOR: u16> VersionedSerialize for VRecOld<MINOR> {
    fn current_version() -> Version {
        Version::new(1, MINOR, 0)
    }
    fn serialize_with_manager<O: DataOutput>(&self, m: &mut VersionManager, o: &mut O) -> ZResult<()> {
        m.serialize_field("id", &self.id, o)?;
        m.serialize_field("name", &self.name, o)
    }
    fn deserialize_with_manager<I: DataInput>(m: &mut VersionManager, i: &mut I) -> ZResult<Self> {
        let id = m.deserialize_field::<u32, _>("id", i)?.unwrap_or(0);
        let name = m.deserialize_field::<String, _>("name", i)?.unwrap_or_default();
        Ok(VRecOld { id, name })
    }
}
/// data stored by an older version is read by the current one through registered migrations
/// (one step 1.1.0 -> 1.2.0, two steps 1.0.0 -> 1.1.0 -> 1.2.0, and the identity)
fn migration_items(rng: &mut Rng) -> Vec<Item> {
    const EXTRA: u64 = 0x0102_0304_0506_0708;
    let mk = || {
        let mut s = VersionedSerializer::new(VersionConfig::flexible());
        // 1.0.0 -> 1.1.0: same layout
        s.register_migration(Version::new(1, 0, 0), Version::new(1, 1, 0), |d| Ok(d.to_vec()));
        // 1.1.0 -> 1.2.0: the field `extra` (present marker + u64) is appended with its default
        s.register_migration(Version::new(1, 1, 0), Version::new(1, 2, 0), |d| {
            let mut o = VecDataOutput::new();
            o.write_bytes(d)?;
            o.write_u8(1)?;
            o.write_u64(EXTRA)?;
            Ok(o.into_vec())
        });
        s
    };
    let strs = test_strings(rng, false);
    let us = u64_values(rng);
    let mut it = vec![];
    for k in 0..9usize {
        let (id, name) = (us[k * 3 + 2] as u32, strs[k % strs.len()].clone());
        let logical = VRec { id, name: name.clone(), extra: Some(if k % 3 == 2 { us[k] } else { EXTRA }) };
        let (n1, n2) = (name.clone(), name.clone());
        let ex = logical.extra;
        it.push(Item {
            codec: format!("ver:migration/{}", ["from-1.0.0", "from-1.1.0", "current"][k % 3]),
            v: logical.pv(),
            unordered: false,
            exact: true,
            enc: Box::new(move |b| {
                let s = mk();
                let bytes = match k % 3 {
                    0 => s.serialize_to_bytes(&VRecOld::<0> { id, name: n1.clone() }),
                    1 => s.serialize_to_bytes(&VRecOld::<1> { id, name: n1.clone() }),
                    _ => s.serialize_to_bytes(&VRec { id, name: n1.clone(), extra: ex }),
                }
                .map_err(es)?;
                b.extend_from_slice(&bytes);
                Ok(None)
            }),
            dec: Box::new(move |d| {
                let _ = &n2;
                mk().deserialize_from_bytes::<VRec>(d).map(|y| (y.pv(), None)).map_err(es)
            }),
            len_pred: None,
            field: None,
            tags: vec![],
            fits: vec![],
        });
    }
    it
}
fn versioned_serializer_items(cfgname: &'static str, rng: &mut Rng) -> Vec<Item> {
    let mk = move || {
        VersionedSerializer::new(match cfgname {
            "strict" => VersionConfig::strict(),
            "flexible" => VersionConfig::flexible(),
            "development" => VersionConfig::development(),
            _ => VersionConfig::new(),
        })
    };
    let strs = test_strings(rng, false);
    let us = u64_values(rng);
    let mut it = vec![];
    for k in 0..8usize {
        let r = VRec { id: us[k * 4 + 1] as u32, name: strs[k % strs.len()].clone(), extra: Some(us[k + 20]) };
        it.push(Item {
            codec: format!("ver:serializer-{cfgname}"),
            v: r.pv(),
            unordered: false,
            exact: true,
            enc: Box::new(move |b| {
                b.extend_from_slice(&mk().serialize_to_bytes(&r).map_err(es)?);
                Ok(None)
            }),
            dec: Box::new(move |d| mk().deserialize_from_bytes::<VRec>(d).map(|y| (y.pv(), None)).map_err(es)),
            len_pred: None,
            field: None,
            tags: vec![],
            fits: vec![],
        });
    }
    it
}

// ---------------------------------------------------------------- part 1b: DataOutput x DataInput back ends

const DIO_PAIRS: &[(&str, &str)] = &[
    ("vec", "slice"),
    ("vec", "reader_cursor"),
    ("vec", "range"),
    ("vec", "reader_sbr7"),
    ("vec", "reader_zc8"),
    ("vec", "reader_chunk3"),
    ("vec_cap", "from_slice"),
    ("writer_vec", "slice"),
    ("writer_cursor", "reader_cursor"),
    ("file", "reader_file"),
    ("file", "mmapdi"),
    ("file", "mminput"),
    ("to_file", "from_file"),
    ("to_file_append", "reader_file"),
    ("vec_cleared", "slice"),
    ("file_append", "reader_bufreader"),
    ("mmapout", "mminput"),
    ("mmapout", "mmapdi"),
    ("writer_sbw", "slice"),
    ("writer_zcw", "reader_zc8"),
    ("writer_range", "range"),
    // short-write sinks and short-read sources (pipe / socket like), Ok(0) once, Interrupted once,
    // targets whose capacity ends in the middle of an encoded value
    ("short1", "slice"),
    ("short2", "reader_short2"),
    ("short3", "reader_short1"),
    ("short7", "reader_short7"),
    ("shortrand", "reader_shortrand"),
    ("zero_once", "slice"),
    ("intr_once", "reader_intr"),
    ("fixed_tight", "slice"),
    ("range_tight", "range_short"),
    ("sbw_short", "sbr_short"),
    ("zcw_short", "zc_short"),
    ("vec", "sbr_intr"),
    ("vec", "zc_intr"),
    ("vec", "range_intr"),
];

/// the byte image a writer back end produced
enum Image {
    Mem(Vec<u8>),
    File(PathBuf),
}
impl Image {
    fn bytes(&self) -> Vec<u8> {
        match self {
            Image::Mem(v) => v.clone(),
            Image::File(p) => std::fs::read(p).unwrap_or_default(),
        }
    }
}

/// writer back ends; `count` = the implementation's own byte counter
enum Out {
    Vec(VecDataOutput),
    WVec(WriterDataOutput<Vec<u8>>),
    WCur(WriterDataOutput<Cursor<Vec<u8>>>),
    File(FileDataOutput, PathBuf),
    Mmap(MemoryMappedOutput, PathBuf),
    Sbw(WriterDataOutput<StreamBufferedWriter<Vec<u8>>>),
    Zcw(WriterDataOutput<ZeroCopyWriter<Vec<u8>>>),
    Rng(WriterDataOutput<RangeWriter<Cursor<Vec<u8>>>>),
    /// short-write sink family; the Rc is the sink itself
    Short(WriterDataOutput<ShortSink>, Rc<RefCell<Vec<u8>>>),
    SbwS(WriterDataOutput<StreamBufferedWriter<ShortSink>>, Rc<RefCell<Vec<u8>>>),
    ZcwS(WriterDataOutput<ZeroCopyWriter<ShortSink>>, Rc<RefCell<Vec<u8>>>),
    RngS(WriterDataOutput<RangeWriter<ShortSink>>, Rc<RefCell<Vec<u8>>>),
}
const RANGE_PAD: usize = 13;
impl Out {
    /// `tight`: capacity for the kinds whose target ends in the middle of an encoded value
    fn make(cx: &mut Cx, kind: &str, tight: usize) -> Result<Out, String> {
        let seed = cx.a.seed;
        let short = |chunk: Chunk| ShortSink::new(chunk);
        Ok(match kind {
            "short1" | "short2" | "short3" | "short7" => {
                let (s, d) = short(Chunk::Fixed(kind[5..].parse().unwrap()));
                Out::Short(WriterDataOutput::new(s), d)
            }
            "shortrand" => {
                let (s, d) = short(Chunk::Rand(5, Rng::new(seed).derive("shortrand")));
                Out::Short(zipora::io::to_writer(s), d)
            }
            "zero_once" => {
                // Ok(0) once: must surface as an error of that call (WriteZero), never as lost bytes
                let (mut s, d) = short(Chunk::Fixed(2));
                s.zero_at = Some(9 + (seed as usize % 7));
                Out::Short(WriterDataOutput::new(s), d)
            }
            "intr_once" => {
                // Interrupted once: write_all retries, the stream is complete
                let (mut s, d) = short(Chunk::Fixed(3));
                s.intr_at = Some(5 + (seed as usize % 11));
                Out::Short(WriterDataOutput::new(s), d)
            }
            "fixed_tight" => {
                let (mut s, d) = short(Chunk::Fixed(1 << 20));
                s.cap = Some(tight);
                Out::Short(WriterDataOutput::new(s), d)
            }
            "range_tight" => {
                let (s, d) = short(Chunk::Fixed(5));
                Out::RngS(WriterDataOutput::new(RangeWriter::new(s, 0, tight as u64)), d)
            }
            "sbw_short" => {
                let (mut s, d) = short(Chunk::Rand(4, Rng::new(seed).derive("sbw_short")));
                s.intr_at = Some(3);
                s.intr_repeat = true;
                let cfg = StreamBufferConfig { initial_capacity: 7, max_capacity: 7, page_alignment: 1, use_secure_pool: false, bulk_read_threshold: 64, ..Default::default() };
                Out::SbwS(WriterDataOutput::new(StreamBufferedWriter::with_config(s, cfg).map_err(es)?), d)
            }
            "zcw_short" => {
                let (mut s, d) = short(Chunk::Rand(4, Rng::new(seed).derive("zcw_short")));
                s.intr_at = Some(4);
                s.intr_repeat = true;
                Out::ZcwS(WriterDataOutput::new(ZeroCopyWriter::with_capacity(s, 16).map_err(es)?), d)
            }
            "vec" => Out::Vec(zipora::io::to_vec()),
            "vec_cap" => Out::Vec(zipora::io::to_vec_with_capacity(1)),
            "writer_vec" => Out::WVec(zipora::io::to_writer(Vec::new())),
            "writer_cursor" => Out::WCur(WriterDataOutput::new(Cursor::new(Vec::new()))),
            "file" | "file_append" => {
                let p = cx.path("dio");
                Out::File(FileDataOutput::create(&p).map_err(es)?, p)
            }
            "to_file" | "to_file_append" => {
                let p = cx.path("dio");
                Out::File(zipora::io::to_file(&p).map_err(es)?, p)
            }
            "vec_cleared" => {
                // bytes written before clear() must not reach the image
                let mut o = VecDataOutput::with_capacity(3);
                o.write_u64(0xDEAD_BEEF_DEAD_BEEF).map_err(es)?;
                o.write_length_prefixed_string("stale").map_err(es)?;
                o.reserve(100);
                o.clear();
                if !o.is_empty() || o.len() != 0 {
                    panic!("VecDataOutput not empty after clear()");
                }
                Out::Vec(o)
            }
            "mmapout" => {
                let p = cx.path("dio");
                Out::Mmap(MemoryMappedOutput::create(&p, 16).map_err(es)?, p)
            }
            "writer_sbw" => {
                let cfg = StreamBufferConfig { initial_capacity: 7, max_capacity: 7, page_alignment: 1, use_secure_pool: false, bulk_read_threshold: 64, ..Default::default() };
                Out::Sbw(WriterDataOutput::new(StreamBufferedWriter::with_config(Vec::new(), cfg).map_err(es)?))
            }
            "writer_zcw" => Out::Zcw(WriterDataOutput::new(ZeroCopyWriter::with_capacity(Vec::new(), 16).map_err(es)?)),
            _ => {
                // a window of a larger sink, surrounded by padding that must stay untouched
                let cap = 12_000_000usize;
                let sink = vec![0xEEu8; cap + 2 * RANGE_PAD];
                Out::Rng(WriterDataOutput::new(RangeWriter::new_and_seek(Cursor::new(sink), RANGE_PAD as u64, cap as u64).map_err(es)?))
            }
        })
    }
    fn dout(&mut self) -> &mut dyn DataOutput {
        match self {
            Out::Vec(o) => o,
            Out::WVec(o) => o,
            Out::WCur(o) => o,
            Out::File(o, _) => o,
            Out::Mmap(o, _) => o,
            Out::Sbw(o) => o,
            Out::Zcw(o) => o,
            Out::Rng(o) => o,
            Out::Short(o, _) => o,
            Out::SbwS(o, _) => o,
            Out::ZcwS(o, _) => o,
            Out::RngS(o, _) => o,
        }
    }
    /// the sink, if the driver can look at it while the writer is alive (no buffering layer)
    fn sink(&self) -> Option<Rc<RefCell<Vec<u8>>>> {
        match self {
            Out::Short(_, d) | Out::RngS(_, d) => Some(d.clone()),
            _ => None,
        }
    }
    fn count(&self) -> u64 {
        match self {
            Out::Vec(o) => o.len() as u64,
            Out::WVec(o) => o.bytes_written(),
            Out::WCur(o) => o.bytes_written(),
            Out::File(o, _) => o.bytes_written(),
            Out::Mmap(o, _) => o.position() as u64,
            Out::Sbw(o) => o.bytes_written(),
            Out::Zcw(o) => o.bytes_written(),
            Out::Rng(o) => o.bytes_written(),
            Out::Short(o, _) => o.bytes_written(),
            Out::SbwS(o, _) => o.bytes_written(),
            Out::ZcwS(o, _) => o.bytes_written(),
            Out::RngS(o, _) => o.bytes_written(),
        }
    }
    fn finish(self) -> Result<Image, String> {
        Ok(match self {
            Out::Vec(o) => Image::Mem(o.into_vec()),
            Out::WVec(mut o) => {
                DataOutput::flush(&mut o).map_err(es)?;
                Image::Mem(o.into_inner())
            }
            Out::WCur(mut o) => {
                DataOutput::flush(&mut o).map_err(es)?;
                Image::Mem(o.into_inner().into_inner())
            }
            Out::File(mut o, p) => {
                DataOutput::flush(&mut o).map_err(es)?;
                if o.bytes_written() % 2 == 0 {
                    o.sync_all().map_err(es)?;
                } else {
                    o.sync_data().map_err(es)?;
                }
                drop(o);
                Image::File(p)
            }
            Out::Mmap(mut o, p) => {
                DataOutput::flush(&mut o).map_err(es)?;
                o.truncate().map_err(es)?;
                drop(o);
                Image::File(p)
            }
            Out::Sbw(mut o) => {
                DataOutput::flush(&mut o).map_err(es)?;
                Image::Mem(o.into_inner().into_inner().map_err(es)?)
            }
            Out::Zcw(mut o) => {
                DataOutput::flush(&mut o).map_err(es)?;
                Image::Mem(o.into_inner().into_inner().map_err(es)?)
            }
            Out::Short(mut o, d) => {
                DataOutput::flush(&mut o).map_err(es)?;
                let v = d.borrow().clone();
                Image::Mem(v)
            }
            Out::SbwS(mut o, d) => {
                DataOutput::flush(&mut o).map_err(es)?;
                let v = d.borrow().clone();
                Image::Mem(v)
            }
            Out::ZcwS(mut o, d) => {
                DataOutput::flush(&mut o).map_err(es)?;
                let v = d.borrow().clone();
                Image::Mem(v)
            }
            Out::RngS(mut o, d) => {
                DataOutput::flush(&mut o).map_err(es)?;
                let v = d.borrow().clone();
                Image::Mem(v)
            }
            Out::Rng(mut o) => {
                DataOutput::flush(&mut o).map_err(es)?;
                let n = o.bytes_written() as usize;
                let sink = o.into_inner().into_inner().into_inner();
                Image::Mem(sink[RANGE_PAD..RANGE_PAD + n].to_vec())
            }
        })
    }
}

/// MemoryMappedInput keeps its position in an inherent method (the trait default says None):
/// pure forwarding, position() exposes the implementation's own counter
struct MmPos(MemoryMappedInput);
impl DataInput for MmPos {
    fn read_u8(&mut self) -> ZResult<u8> {
        self.0.read_u8()
    }
    fn read_u16(&mut self) -> ZResult<u16> {
        self.0.read_u16()
    }
    fn read_u32(&mut self) -> ZResult<u32> {
        self.0.read_u32()
    }
    fn read_u64(&mut self) -> ZResult<u64> {
        self.0.read_u64()
    }
    fn read_var_int(&mut self) -> ZResult<u64> {
        self.0.read_var_int()
    }
    fn read_bytes(&mut self, b: &mut [u8]) -> ZResult<()> {
        self.0.read_bytes(b)
    }
    fn read_vec(&mut self, n: usize) -> ZResult<Vec<u8>> {
        self.0.read_vec(n)
    }
    fn read_length_prefixed_bytes(&mut self) -> ZResult<Vec<u8>> {
        self.0.read_length_prefixed_bytes()
    }
    fn read_string(&mut self, n: usize) -> ZResult<String> {
        self.0.read_string(n)
    }
    fn read_length_prefixed_string(&mut self) -> ZResult<String> {
        self.0.read_length_prefixed_string()
    }
    fn skip(&mut self, n: usize) -> ZResult<()> {
        DataInput::skip(&mut self.0, n)
    }
    fn position(&self) -> Option<u64> {
        Some(self.0.position() as u64)
    }
}
/// reader back ends over an image; pos() = the implementation's own position, if it has one
fn make_input(cx: &mut Cx, kind: &str, img: &Image) -> Result<(Box<dyn DataInput>, bool), String> {
    let file_of = |cx: &mut Cx, img: &Image| -> Result<PathBuf, String> {
        match img {
            Image::File(p) => Ok(p.clone()),
            Image::Mem(v) => {
                let p = cx.path("img");
                std::fs::write(&p, v).map_err(es)?;
                Ok(p)
            }
        }
    };
    // leaked buffers: the slice back ends borrow; the images are small and the process is short-lived
    let leak = |v: Vec<u8>| -> &'static [u8] { Box::leak(v.into_boxed_slice()) };
    Ok(match kind {
        "slice" => (Box::new(SliceDataInput::new(leak(img.bytes()))), true),
        "from_slice" => (Box::new(zipora::io::from_slice(leak(img.bytes()))), true),
        "reader_cursor" => (Box::new(zipora::io::from_reader(Cursor::new(img.bytes()))), true),
        "reader_file" => (Box::new(ReaderDataInput::new(File::open(file_of(cx, img)?).map_err(es)?)), true),
        "reader_bufreader" => (Box::new(ReaderDataInput::new(io::BufReader::with_capacity(5, File::open(file_of(cx, img)?).map_err(es)?))), true),
        "mmapdi" => (Box::new(MmapDataInput::open(file_of(cx, img)?).map_err(es)?), true),
        "from_file" => (Box::new(zipora::io::from_file(file_of(cx, img)?).map_err(es)?), true),
        "mminput" => (Box::new(MmPos(MemoryMappedInput::from_path(file_of(cx, img)?).map_err(es)?)), true),
        "range" => {
            let b = img.bytes();
            let mut padded = vec![0x77u8; RANGE_PAD];
            padded.extend_from_slice(&b);
            padded.extend_from_slice(&[0x77u8; RANGE_PAD]);
            (Box::new(RangeReader::new_and_seek(Cursor::new(padded), RANGE_PAD as u64, b.len() as u64).map_err(es)?), true)
        }
        "reader_sbr7" => {
            let cfg = StreamBufferConfig { initial_capacity: 7, max_capacity: 1 << 20, page_alignment: 1, use_secure_pool: false, bulk_read_threshold: 64, ..Default::default() };
            (Box::new(ReaderDataInput::new(StreamBufferedReader::with_config(Cursor::new(img.bytes()), cfg).map_err(es)?)), true)
        }
        "reader_zc8" => (Box::new(ReaderDataInput::new(ZeroCopyReader::with_capacity(Cursor::new(img.bytes()), 8).map_err(es)?)), true),
        "reader_short1" | "reader_short2" | "reader_short7" => {
            let k: usize = kind[12..].parse().unwrap();
            (Box::new(ReaderDataInput::new(ShortSrc { inner: Cursor::new(img.bytes()), chunk: Chunk::Fixed(k), calls: 0, intr_at: None })), true)
        }
        "reader_shortrand" => (Box::new(zipora::io::from_reader(ShortSrc { inner: Cursor::new(img.bytes()), chunk: Chunk::Rand(5, Rng::new(cx.a.seed).derive("rsr")), calls: 0, intr_at: None })), true),
        "reader_intr" => {
            // Interrupted once: read_exact retries, nothing is lost
            let src = ShortSrc { inner: Cursor::new(img.bytes()), chunk: Chunk::Fixed(3), calls: 0, intr_at: Some(4 + (cx.a.seed as usize % 9)) };
            (Box::new(ReaderDataInput::new(src)), true)
        }
        "sbr_short" | "sbr_intr" => {
            let src = ShortSrc { inner: Cursor::new(img.bytes()), chunk: Chunk::Rand(4, Rng::new(cx.a.seed).derive("sbr")), calls: 0, intr_at: if kind == "sbr_intr" { Some(3) } else { None } };
            let cfg = StreamBufferConfig { initial_capacity: 7, max_capacity: 1 << 20, page_alignment: 1, use_secure_pool: false, bulk_read_threshold: 64, ..Default::default() };
            (Box::new(ReaderDataInput::new(StreamBufferedReader::with_config(src, cfg).map_err(es)?)), true)
        }
        "zc_short" | "zc_intr" => {
            let src = ShortSrc { inner: Cursor::new(img.bytes()), chunk: Chunk::Rand(4, Rng::new(cx.a.seed).derive("zcs")), calls: 0, intr_at: if kind == "zc_intr" { Some(3) } else { None } };
            (Box::new(ReaderDataInput::new(ZeroCopyReader::with_capacity(src, 8).map_err(es)?)), true)
        }
        "range_short" | "range_intr" => {
            let b = img.bytes();
            let src = ShortSrc { inner: Cursor::new(b.clone()), chunk: Chunk::Fixed(2), calls: 0, intr_at: if kind == "range_intr" { Some(6) } else { None } };
            (Box::new(RangeReader::new(src, 0, b.len() as u64)), true)
        }
        _ => (Box::new(ReaderDataInput::new(Chunked { inner: Cursor::new(img.bytes()), m: 3 })), true),
    })
}

fn run_dio_pair(cx: &mut Cx, okind: &str, ikind: &str, items: &[DItem], setname: &str) {
    let subject = format!("dio:{okind}-{ikind}");
    cx.reset(&subject, json!({"set": setname, "items": items.len()}));
    // targets that end in the middle of an encoded value: the capacity is the length of the
    // complete encoding (as the same encoders produce it into a growable buffer) minus a few bytes
    let mut tight = 0usize;
    if okind.ends_with("_tight") {
        let mut total = 0usize;
        for it in items {
            let mut o = VecDataOutput::new();
            if let Ok(Ok(())) = guard(|| (it.enc)(&mut o)) {
                total += o.len();
            }
        }
        tight = total.saturating_sub(1 + (cx.a.seed as usize + items.len()) % 9);
    }
    let pj = |b: &[u8]| if b.len() <= 64 { bytes_json(b) } else { digest(b) };
    let mut out = match guard(|| Out::make(cx, okind, tight)) {
        Ok(Ok(o)) => o,
        Ok(Err(m)) => {
            cx.ev(&subject, json!({"op":"write_refused","codec":"open","v":[],"msg":m}));
            return;
        }
        Err(m) => {
            cx.ev(&subject, json!({"op":"panic","in":"create_output","msg":m}));
            return;
        }
    };
    // file_append: the image is produced by two FileDataOutput sessions, the second one appending
    let split = if okind == "file_append" || okind == "to_file_append" { items.len() / 2 } else { usize::MAX };
    let mut recs: Vec<(usize, u64)> = vec![];
    let mut base = 0u64;
    for (ix, it) in items.iter().enumerate() {
        if ix == split {
            if let Out::File(mut o, p) = out {
                let _ = DataOutput::flush(&mut o);
                drop(o);
                match if okind == "to_file_append" { zipora::io::to_file_append(&p) } else { FileDataOutput::append(&p) }.map_err(es) {
                    Ok(o2) => {
                        // the append session starts counting at the current file length
                        base = 0;
                        out = Out::File(o2, p);
                    }
                    Err(m) => {
                        cx.ev(&subject, json!({"op":"write_refused","codec":"append","v":[],"msg":m}));
                        return;
                    }
                }
            } else {
                unreachable!()
            }
        }
        let before = out.count();
        let sink = out.sink();
        let sink_before = sink.as_ref().map_or(0, |d| d.borrow().len());
        let res = guard(|| (it.enc)(out.dout()));
        if let (Some(d), Ok(r)) = (&sink, &res) {
            // a sink that may take fewer bytes than offered: what reached it during the call against
            // the encoding the same encoder produces into a growable buffer
            let got: Vec<u8> = d.borrow()[sink_before..].to_vec();
            let mut o = VecDataOutput::new();
            if let Ok(Ok(())) = guard(|| (it.enc)(&mut o)) {
                let enc = o.into_vec();
                let n = out.count() - before;
                let ok = r.is_ok();
                cx.ev(&subject, json!({"op":"write_through","codec":it.codec,"v":it.v,"ok":ok,"n":n,"enc_len":enc.len(),"sink_len":got.len(),
                    "encp":pj(&enc[..got.len().min(enc.len())]),"sink":pj(&got),"at":sink_before,"msg":r.as_ref().err().cloned().unwrap_or_default()}));
                if ok {
                    recs.push((ix, enc.len() as u64));
                    continue;
                }
                break; // a writer that reported an error is not written to again
            }
        }
        match res {
            Ok(Ok(())) => {
                let n = out.count() - before;
                cx.ev(&subject, json!({"op":"write","codec":it.codec,"v":it.v,"n":n,"at":before - base}));
                recs.push((ix, n));
            }
            Ok(Err(m)) => {
                // a refused write that moved the counter would desynchronise the stream
                let n = out.count() - before;
                if n == 0 {
                    cx.ev(&subject, json!({"op":"write_refused","codec":it.codec,"v":it.v,"msg":m}));
                } else {
                    cx.ev(&subject, json!({"op":"panic","in":"write","codec":it.codec,"msg":format!("refused after writing {n} bytes: {m}"),"interrupted":m.contains("interrupted (stimulus)")}));
                    return;
                }
            }
            Err(m) => {
                cx.ev(&subject, json!({"op":"panic","in":"write","codec":it.codec,"msg":m}));
                std::mem::forget(out);
                return;
            }
        }
    }
    // the trait-level counters agree with the inherent one
    let cnt = out.count();
    let (tp, tb) = (out.dout().position(), out.dout().bytes_written());
    if let Some(p) = tp {
        cx.ev(&subject, json!({"op":"batch_eq","what":"DataOutput::position vs inherent counter","batch":p,"scalar":cnt}));
    }
    if let Some(p) = tb {
        cx.ev(&subject, json!({"op":"batch_eq","what":"DataOutput::bytes_written vs inherent counter","batch":p,"scalar":cnt}));
    }
    let img = match guard(|| out.finish()) {
        Ok(Ok(i)) => i,
        Ok(Err(m)) | Err(m) => {
            cx.ev(&subject, json!({"op":"panic","in":"finish_output","msg":m}));
            return;
        }
    };
    let total = match &img {
        Image::Mem(v) => v.len() as u64,
        Image::File(p) => std::fs::metadata(p).map(|m| m.len()).unwrap_or(u64::MAX),
    };
    cx.ev(&subject, json!({"op":"total","r":total}));
    let (mut inp, has_pos) = match guard(|| make_input(cx, ikind, &img)) {
        Ok(Ok(x)) => x,
        Ok(Err(m)) => {
            cx.ev(&subject, json!({"op":"read_refused","codec":"open","at":0,"msg":m}));
            return;
        }
        Err(m) => {
            cx.ev(&subject, json!({"op":"panic","in":"create_input","msg":m}));
            return;
        }
    };
    let mm_pos = |i: &dyn DataInput| i.position();
    let mut book = 0u64;
    for &(ix, n) in &recs {
        let it = &items[ix];
        let p0 = if has_pos { mm_pos(inp.as_ref()) } else { None };
        let at = p0.unwrap_or(book);
        match guard(|| (it.dec)(inp.as_mut())) {
            Ok(Ok(v)) => {
                let p1 = if has_pos { mm_pos(inp.as_ref()) } else { None };
                if let Some(f) = &it.field {
                    let present = v.first().map_or(false, |s| s == "some");
                    let vv: Vec<String> = v.iter().skip(1).cloned().collect();
                    let c = p1.map(|p| p - at).unwrap_or(n);
                    cx.ev(&subject, json!({"op":"read_field","codec":it.codec,"v":vv,"present":present,"consumed":c,"at":at,"wv":f["wv"],"fv":f["fv"],"rv":f["rv"],"mx":f["mx"]}));
                } else {
                    match p1 {
                        Some(p) => cx.ev(&subject, json!({"op":"read","codec":it.codec,"v":v,"consumed":p - at,"at":at,"unordered":it.unordered,"tags":it.tags})),
                        None => cx.ev(&subject, json!({"op":"read_val","codec":it.codec,"v":v,"at":at,"unordered":it.unordered,"tags":it.tags})),
                    }
                }
                cx.case(&subject, &format!("{}/{}", it.codec, it.v.join(",")));
            }
            Ok(Err(m)) => {
                cx.ev(&subject, json!({"op":"read_refused","codec":it.codec,"at":at,"want":it.v,"interrupted":m.contains("interrupted (stimulus)"),"msg":m,"tags":it.tags}));
                return; // a stateful reader is at an unknown place after a failed read
            }
            Err(m) => {
                cx.ev(&subject, json!({"op":"panic","in":"read","codec":it.codec,"msg":m}));
                std::mem::forget(inp);
                return;
            }
        }
        book += n;
    }
    // MemoryMappedInput has an inherent position(); DataInput::position() is the default (None) for it:
    // its consumption is judged through the values only
}

// ---------------------------------------------------------------- part 2: views

#[derive(Clone)]
enum Src {
    Arr(Vec<u8>),
    Pat { len: usize, a: u64, b: u64 },
}
impl Src {
    fn bytes(&self) -> Vec<u8> {
        match self {
            Src::Arr(v) => v.clone(),
            Src::Pat { len, a, b } => (0..*len as u64).map(|i| ((i * a + i / b) % 256) as u8).collect(),
        }
    }
    fn len(&self) -> usize {
        match self {
            Src::Arr(v) => v.len(),
            Src::Pat { len, .. } => *len,
        }
    }
    fn json(&self) -> Value {
        match self {
            Src::Arr(v) => json!({"kind":"arr","arr":bytes_json(v)}),
            Src::Pat { len, a, b } => json!({"kind":"pat","len":len,"a":a,"b":b}),
        }
    }
}

/// uniform call-through view of a reader back end; None = the type does not offer the operation
trait View {
    fn read(&mut self, _k: usize) -> Option<Result<Vec<u8>, String>> {
        None
    }
    /// a second read API with the same contract (read_simd_optimized / read_optimized)
    fn read2(&mut self, _k: usize) -> Option<Result<Vec<u8>, String>> {
        None
    }
    /// all k bytes (Some) or a refusal (None / Err)
    fn exact(&mut self, _k: usize) -> Option<Result<Option<Vec<u8>>, String>> {
        None
    }
    fn exact2(&mut self, _k: usize) -> Option<Result<Option<Vec<u8>>, String>> {
        None
    }
    fn peek(&mut self, _k: usize) -> Option<Result<Option<Vec<u8>>, String>> {
        None
    }
    fn skip(&mut self, _k: usize) -> Option<Result<(), String>> {
        None
    }
    fn seek(&mut self, _whence: &str, _o: i64) -> Option<Result<u64, String>> {
        None
    }
    fn pos(&mut self) -> Option<u64> {
        None
    }
    fn remaining(&mut self) -> Option<u64> {
        None
    }
    /// a third read API with the contract of read (read_bulk)
    fn read3(&mut self, _k: usize) -> Option<Result<Vec<u8>, String>> {
        None
    }
    /// a second look-ahead API (peek_slice_zero_copy, ensure_buffered / zc_ensure + look)
    fn peek2(&mut self, _k: usize) -> Option<Result<Option<Vec<u8>>, String>> {
        None
    }
    /// "nothing is left" observers (is_at_end, !has_more, !has_remaining)
    fn at_end(&mut self) -> Option<bool> {
        None
    }
    /// length of the view as the implementation reports it (range_length, total_length, len)
    fn vlen(&mut self) -> Option<u64> {
        None
    }
    /// exact reads (exact, exact2 if `.1`) and skips are TOTAL on this back end: inside the view
    /// they cannot fail (slice / mmap / range readers)
    fn total(&self) -> (bool, bool) {
        (false, false)
    }
    /// back to the start of the view (RangeReader::reset)
    fn rewind(&mut self) -> Option<Result<u64, String>> {
        None
    }
    /// a refused skip has consumed an unspecified number of bytes (streaming skip that reads and
    /// discards, like read_exact): the driver ends the run there
    fn skip_err_unspecified(&self) -> bool {
        false
    }
}
fn rd<R: Read>(r: &mut R, k: usize) -> Result<Vec<u8>, String> {
    let mut buf = vec![0u8; k];
    let n = r.read(&mut buf).map_err(es)?;
    if n > k {
        panic!("read returned {n} > {k}");
    }
    buf.truncate(n);
    Ok(buf)
}
fn sf(whence: &str, o: i64) -> SeekFrom {
    match whence {
        "start" => SeekFrom::Start(o as u64),
        "cur" => SeekFrom::Current(o),
        _ => SeekFrom::End(o),
    }
}

struct RangeV<R: Read>(RangeReader<R>, bool);
impl<R: Read + Seek> View for RangeV<R> {
    fn read(&mut self, k: usize) -> Option<Result<Vec<u8>, String>> {
        Some(rd(&mut self.0, k))
    }
    fn exact(&mut self, k: usize) -> Option<Result<Option<Vec<u8>>, String>> {
        let mut b = vec![0u8; k];
        Some(self.0.read_bytes(&mut b).map(|_| Some(b)).map_err(es))
    }
    fn skip(&mut self, k: usize) -> Option<Result<(), String>> {
        Some(DataInput::skip(&mut self.0, k).map_err(es))
    }
    fn seek(&mut self, w: &str, o: i64) -> Option<Result<u64, String>> {
        if self.1 && w == "start" {
            // seek_in_range refuses the end position itself
            return Some(self.0.seek_in_range(o as u64).map_err(es));
        }
        Some(self.0.seek(sf(w, o)).map_err(es))
    }
    fn pos(&mut self) -> Option<u64> {
        // two observers of the same quantity, alternating
        if self.0.current_position() % 2 == 0 {
            DataInput::position(&self.0)
        } else {
            Some(self.0.current_position() - self.0.start_position())
        }
    }
    fn remaining(&mut self) -> Option<u64> {
        Some(if self.0.remaining() % 2 == 0 { self.0.remaining() } else { self.0.end_position() - self.0.current_position() })
    }
    fn at_end(&mut self) -> Option<bool> {
        let (a, b) = (self.0.is_at_end(), DataInput::has_remaining(&self.0) == Some(false));
        if a != b {
            panic!("is_at_end() = {a} but has_remaining() = {:?}", DataInput::has_remaining(&self.0));
        }
        Some(a)
    }
    fn vlen(&mut self) -> Option<u64> {
        Some(self.0.range_length())
    }
    fn total(&self) -> (bool, bool) {
        (true, false)
    }
    fn rewind(&mut self) -> Option<Result<u64, String>> {
        Some(self.0.reset().map(|_| self.0.current_position() - self.0.start_position()).map_err(es))
    }
}
/// RangeReader over a non-seekable inner reader that delivers short reads
struct RangeC(RangeReader<Chunked<Cursor<Vec<u8>>>>);
impl View for RangeC {
    fn total(&self) -> (bool, bool) {
        (true, false)
    }
    fn read(&mut self, k: usize) -> Option<Result<Vec<u8>, String>> {
        Some(rd(&mut self.0, k))
    }
    fn exact(&mut self, k: usize) -> Option<Result<Option<Vec<u8>>, String>> {
        let mut b = vec![0u8; k];
        Some(self.0.read_bytes(&mut b).map(|_| Some(b)).map_err(es))
    }
    fn skip(&mut self, k: usize) -> Option<Result<(), String>> {
        Some(DataInput::skip(&mut self.0, k).map_err(es))
    }
    fn pos(&mut self) -> Option<u64> {
        DataInput::position(&self.0)
    }
    fn remaining(&mut self) -> Option<u64> {
        Some(self.0.remaining())
    }
}
struct MultiV(MultiRangeReader<Cursor<Vec<u8>>>);
impl View for MultiV {
    fn read(&mut self, k: usize) -> Option<Result<Vec<u8>, String>> {
        Some(rd(&mut self.0, k))
    }
    fn vlen(&mut self) -> Option<u64> {
        Some(self.0.total_length())
    }
}
struct BufV<R: Read> {
    r: StreamBufferedReader<R>,
    seekable: Option<fn(&mut StreamBufferedReader<R>, SeekFrom) -> io::Result<u64>>,
}
impl<R: Read> View for BufV<R> {
    fn read3(&mut self, k: usize) -> Option<Result<Vec<u8>, String>> {
        let mut b = vec![0u8; k];
        Some(self.r.read_bulk(&mut b).map_err(es).and_then(|n| {
            if n > k {
                panic!("returned {n} > {k}");
            }
            b.truncate(n);
            Ok(b)
        }))
    }
    fn peek2(&mut self, k: usize) -> Option<Result<Option<Vec<u8>>, String>> {
        // ensure_buffered reports how much is buffered; fill_buf then shows exactly that
        let avail = match self.r.ensure_buffered(k) {
            Ok(a) => a,
            Err(e) => return Some(Err(es(e))),
        };
        if !self.r.has_data_in_buffer() {
            if avail != 0 {
                panic!("ensure_buffered = {avail} but has_data_in_buffer is false");
            }
            return Some(Ok(Some(vec![])));
        }
        let usage = self.r.buffer_usage();
        Some(self.r.fill_buf().map_err(es).map(|s| {
            if s.len() != avail || avail != usage {
                panic!("ensure_buffered = {avail}, buffer_usage = {usage}, fill_buf shows {}", s.len());
            }
            Some(s.to_vec())
        }))
    }
    fn pos(&mut self) -> Option<u64> {
        // bytes pulled from the inner reader minus bytes still buffered (meaningful without seeks)
        if self.seekable.is_some() {
            return None;
        }
        Some(self.r.total_read() - self.r.buffer_usage() as u64)
    }
    fn read(&mut self, k: usize) -> Option<Result<Vec<u8>, String>> {
        Some(rd(&mut self.r, k))
    }
    fn read2(&mut self, k: usize) -> Option<Result<Vec<u8>, String>> {
        let mut b = vec![0u8; k];
        Some(self.r.read_simd_optimized(&mut b).map_err(es).and_then(|n| {
            if n > k {
                panic!("returned {n} > {k}");
            }
            b.truncate(n);
            Ok(b)
        }))
    }
    fn exact(&mut self, k: usize) -> Option<Result<Option<Vec<u8>>, String>> {
        Some(self.r.read_slice(k).map(|o| o.map(|s| s.to_vec())).map_err(es))
    }
    fn exact2(&mut self, k: usize) -> Option<Result<Option<Vec<u8>>, String>> {
        if k != 1 {
            return None;
        }
        Some(self.r.read_byte_fast().map(|b| Some(vec![b])).map_err(es))
    }
    fn peek(&mut self, _k: usize) -> Option<Result<Option<Vec<u8>>, String>> {
        Some(self.r.fill_buf().map(|s| Some(s.to_vec())).map_err(es))
    }
    fn skip(&mut self, k: usize) -> Option<Result<(), String>> {
        // BufRead::consume: only what fill_buf has shown may be consumed
        if k > self.r.buffer_usage() {
            return None;
        }
        self.r.consume(k);
        Some(Ok(()))
    }
    fn seek(&mut self, w: &str, o: i64) -> Option<Result<u64, String>> {
        let f = self.seekable?;
        Some(f(&mut self.r, sf(w, o)).map_err(es))
    }
}
struct ZcV<R: Read>(ZeroCopyReader<R>);
impl<R: Read> View for ZcV<R> {
    fn read(&mut self, k: usize) -> Option<Result<Vec<u8>, String>> {
        Some(rd(&mut self.0, k))
    }
    fn read2(&mut self, k: usize) -> Option<Result<Vec<u8>, String>> {
        let mut b = vec![0u8; k];
        Some(self.0.read_optimized(&mut b).map_err(es).and_then(|n| {
            if n > k {
                panic!("returned {n} > {k}");
            }
            b.truncate(n);
            Ok(b)
        }))
    }
    fn exact(&mut self, k: usize) -> Option<Result<Option<Vec<u8>>, String>> {
        let got = match self.0.zc_read(k) {
            Ok(Some(s)) => s.to_vec(),
            Ok(None) => return Some(Ok(None)),
            Err(e) => return Some(Err(es(e))),
        };
        Some(self.0.zc_advance(k).map(|_| Some(got)).map_err(es))
    }
    fn peek(&mut self, k: usize) -> Option<Result<Option<Vec<u8>>, String>> {
        Some(self.0.peek(k).map(|s| Some(s.to_vec())).map_err(es))
    }
    fn skip(&mut self, k: usize) -> Option<Result<(), String>> {
        Some(self.0.skip_bytes(k).map_err(es))
    }
    fn peek2(&mut self, k: usize) -> Option<Result<Option<Vec<u8>>, String>> {
        // zc_ensure reports how much of the request is available; zc_read of that much must succeed
        let n = match self.0.zc_ensure(k) {
            Ok(n) => n,
            Err(e) => return Some(Err(es(e))),
        };
        if n > k || n > self.0.zc_available() {
            panic!("zc_ensure({k}) = {n}, available {}", self.0.zc_available());
        }
        Some(self.0.zc_read(n).map(|o| o.map(|s| s.to_vec())).map_err(es))
    }
    fn skip_err_unspecified(&self) -> bool {
        true
    }
}
struct MmapZcV(MmapZeroCopyReader);
impl View for MmapZcV {
    fn read(&mut self, k: usize) -> Option<Result<Vec<u8>, String>> {
        Some(rd(&mut self.0, k))
    }
    fn exact(&mut self, k: usize) -> Option<Result<Option<Vec<u8>>, String>> {
        let got = match self.0.zc_read(k) {
            Ok(Some(s)) => s.to_vec(),
            Ok(None) => return Some(Ok(None)),
            Err(e) => return Some(Err(es(e))),
        };
        Some(self.0.zc_advance(k).map(|_| Some(got)).map_err(es))
    }
    fn peek(&mut self, k: usize) -> Option<Result<Option<Vec<u8>>, String>> {
        Some(self.0.zc_read(k).map(|o| o.map(|s| s.to_vec())).map_err(es))
    }
    fn skip(&mut self, k: usize) -> Option<Result<(), String>> {
        Some(self.0.zc_advance(k).map_err(es))
    }
    fn seek(&mut self, w: &str, o: i64) -> Option<Result<u64, String>> {
        if w != "start" {
            return None;
        }
        Some(self.0.set_position(o as usize).map(|_| self.0.position() as u64).map_err(es))
    }
    fn pos(&mut self) -> Option<u64> {
        Some(self.0.position() as u64)
    }
    fn remaining(&mut self) -> Option<u64> {
        Some(self.0.zc_available() as u64)
    }
    fn peek2(&mut self, k: usize) -> Option<Result<Option<Vec<u8>>, String>> {
        // the whole remainder (cut to a bounded look-ahead for the log)
        let s = self.0.remaining_slice();
        let whole = self.0.as_slice().len();
        if s.len() + self.0.position() != whole {
            panic!("remaining_slice + position != as_slice");
        }
        Some(Ok(Some(s[..s.len().min(k.max(1) * 2)].to_vec())))
    }
    fn vlen(&mut self) -> Option<u64> {
        Some(if self.0.is_empty() { 0 } else { self.0.len() as u64 })
    }
    fn total(&self) -> (bool, bool) {
        (true, false)
    }
}
struct MmInV(MemoryMappedInput);
impl View for MmInV {
    fn exact(&mut self, k: usize) -> Option<Result<Option<Vec<u8>>, String>> {
        Some(self.0.read_slice(k).map(Some).map_err(es))
    }
    fn exact2(&mut self, k: usize) -> Option<Result<Option<Vec<u8>>, String>> {
        Some(self.0.read_slice_zero_copy(k).map(|s| Some(s.to_vec())).map_err(es))
    }
    fn peek(&mut self, k: usize) -> Option<Result<Option<Vec<u8>>, String>> {
        Some(self.0.peek_slice(k).map(Some).map_err(es))
    }
    fn skip(&mut self, k: usize) -> Option<Result<(), String>> {
        Some(DataInput::skip(&mut self.0, k).map_err(es))
    }
    fn seek(&mut self, w: &str, o: i64) -> Option<Result<u64, String>> {
        if w != "start" {
            return None;
        }
        Some(self.0.seek(o as usize).map(|_| self.0.position() as u64).map_err(es))
    }
    fn pos(&mut self) -> Option<u64> {
        Some(self.0.position() as u64)
    }
    fn remaining(&mut self) -> Option<u64> {
        Some(self.0.remaining() as u64)
    }
    fn peek2(&mut self, k: usize) -> Option<Result<Option<Vec<u8>>, String>> {
        Some(self.0.peek_slice_zero_copy(k).map(|s| Some(s.to_vec())).map_err(es))
    }
    fn vlen(&mut self) -> Option<u64> {
        Some(if self.0.is_empty() { 0 } else { self.0.len() as u64 })
    }
    fn total(&self) -> (bool, bool) {
        (true, false)
    }
}
/// SliceDataInput / MmapDataInput as views of their byte sequence
struct SliceV(SliceDataInput<'static>);
impl View for SliceV {
    fn exact(&mut self, k: usize) -> Option<Result<Option<Vec<u8>>, String>> {
        let mut b = vec![0u8; k];
        Some(self.0.read_bytes(&mut b).map(|_| Some(b)).map_err(es))
    }
    fn exact2(&mut self, k: usize) -> Option<Result<Option<Vec<u8>>, String>> {
        Some(self.0.read_vec(k).map(Some).map_err(es))
    }
    fn peek2(&mut self, k: usize) -> Option<Result<Option<Vec<u8>>, String>> {
        let s = self.0.remaining_slice();
        Some(Ok(Some(s[..s.len().min(k.max(1) * 2)].to_vec())))
    }
    fn skip(&mut self, k: usize) -> Option<Result<(), String>> {
        Some(self.0.skip(k).map_err(es))
    }
    fn pos(&mut self) -> Option<u64> {
        if self.0.pos() % 2 == 0 {
            DataInput::position(&self.0)
        } else {
            Some(self.0.pos() as u64)
        }
    }
    fn remaining(&mut self) -> Option<u64> {
        Some(self.0.remaining() as u64)
    }
    fn at_end(&mut self) -> Option<bool> {
        let (a, b) = (!self.0.has_more(), self.0.has_remaining() == Some(false));
        if a != b {
            panic!("has_more() = {} but has_remaining() = {:?}", !a, self.0.has_remaining());
        }
        Some(a)
    }
    fn total(&self) -> (bool, bool) {
        (true, true)
    }
}
struct MmapDiV(MmapDataInput);
impl View for MmapDiV {
    fn exact(&mut self, k: usize) -> Option<Result<Option<Vec<u8>>, String>> {
        let mut b = vec![0u8; k];
        Some(self.0.read_bytes(&mut b).map(|_| Some(b)).map_err(es))
    }
    fn exact2(&mut self, k: usize) -> Option<Result<Option<Vec<u8>>, String>> {
        Some(self.0.read_vec(k).map(Some).map_err(es))
    }
    fn peek2(&mut self, k: usize) -> Option<Result<Option<Vec<u8>>, String>> {
        let s = self.0.remaining_slice();
        if s.len() + self.0.pos() != self.0.as_slice().len() {
            panic!("remaining_slice + pos != as_slice");
        }
        Some(Ok(Some(s[..s.len().min(k.max(1) * 2)].to_vec())))
    }
    fn skip(&mut self, k: usize) -> Option<Result<(), String>> {
        Some(self.0.skip(k).map_err(es))
    }
    fn pos(&mut self) -> Option<u64> {
        DataInput::position(&self.0)
    }
    fn remaining(&mut self) -> Option<u64> {
        Some(self.0.remaining() as u64)
    }
    fn at_end(&mut self) -> Option<bool> {
        Some(self.0.has_remaining() == Some(false))
    }
    fn total(&self) -> (bool, bool) {
        (true, true)
    }
    fn vlen(&mut self) -> Option<u64> {
        Some(if self.0.is_empty() { 0 } else { self.0.len() as u64 })
    }
}
/// VectoredIO::read_vectored over an inner reader: the k bytes are requested as three buffers;
/// the result is the first `total` bytes of the buffers taken in order
struct VecV<R: Read>(R);
impl<R: Read> View for VecV<R> {
    fn read(&mut self, k: usize) -> Option<Result<Vec<u8>, String>> {
        let (k1, k2) = (k / 3, k / 3 + k % 3);
        let k3 = k - k1 - k2;
        let (mut a, mut b, mut c) = (vec![0u8; k1], vec![0u8; k2], vec![0u8; k3]);
        let n = {
            let mut bufs = [IoSliceMut::new(&mut a), IoSliceMut::new(&mut b), IoSliceMut::new(&mut c)];
            match VectoredIO::read_vectored(&mut self.0, &mut bufs) {
                Ok(n) => n,
                Err(e) => return Some(Err(es(e))),
            }
        };
        let mut all = a;
        all.extend_from_slice(&b);
        all.extend_from_slice(&c);
        if n > all.len() {
            return Some(Err(format!("returned {n} > {}", all.len())));
        }
        all.truncate(n);
        Some(Ok(all))
    }
}

#[derive(Clone, Debug)]
enum Op {
    Read(usize),
    Read2(usize),
    Exact(usize),
    Exact2(usize),
    Peek(usize),
    Skip(usize),
    SkipPeeked,
    Seek(&'static str, i64),
    SeekAbs(usize),
    Pos,
    Remaining,
    Drain(usize),
    Read3(usize),
    Peek2(usize),
    AtEnd,
    VLen,
    Rewind,
    /// exact read / skip of (what is left + delta) bytes: delta 0 fits exactly, delta 1 must be refused
    ExactRem(usize),
    SkipRem(usize),
    /// skip so that exactly this many bytes are left (if more are left)
    SkipLeave(usize),
}

/// run one program on one view; every call is one event
fn run_view(cx: &mut Cx, subject: &str, src: &Src, ranges: &[(usize, usize)], cfg: Value, make: &dyn Fn(&Src) -> Result<Box<dyn View>, String>, prog: &[Op]) {
    // capacity of the internal buffer, if the subject has one: the events record whether the driver
    // has already asked for more than that in one request (input history, used by deviation guards)
    let cap = cfg.get("cap").and_then(|c| c.as_u64()).map(|c| c as usize);
    let mut overcap = false;
    cx.reset(subject, cfg);
    let rj: Vec<Value> = ranges.iter().map(|(a, b)| json!([a, b])).collect();
    cx.ev(subject, json!({"op":"open","src":src.json(),"ranges":rj}));
    let vlen: usize = ranges.iter().map(|(a, b)| b - a).sum();
    let mut v = match guard(|| make(src)) {
        Ok(Ok(v)) => v,
        Ok(Err(m)) => {
            cx.ev(subject, json!({"op":"readn_refused","api":"open","k":0,"msg":m}));
            return;
        }
        Err(m) => {
            cx.ev(subject, json!({"op":"panic","in":"open","msg":m}));
            return;
        }
    };
    let mut dc = 0usize; // the driver's idea of the cursor, used only to keep seek targets inside the range
    let mut peeked = 0usize;
    let mut nontrivial = false;
    let mut ops: Vec<Op> = prog.to_vec();
    ops.reverse();
    let mut steps = 0usize;
    while let Some(op) = ops.pop() {
        let op = match op {
            Op::ExactRem(d) => {
                let left = vlen.saturating_sub(dc);
                // a whole large remainder is skipped rather than logged byte by byte
                if left + d > 6000 {
                    Op::Skip(left + d)
                } else {
                    Op::Exact(left + d)
                }
            }
            Op::SkipRem(d) => Op::Skip(vlen.saturating_sub(dc) + d),
            Op::SkipLeave(r) => {
                let left = vlen.saturating_sub(dc);
                if left <= r {
                    continue;
                }
                Op::Skip(left - r)
            }
            o => o,
        };
        steps += 1;
        if steps > 4000 {
            break;
        }
        let res = guard(|| -> Option<Value> {
            Some(match &op {
                Op::Read(k) | Op::Read2(k) | Op::Drain(k) => {
                    let api = if matches!(op, Op::Read2(_)) { "read2" } else { "read" };
                    let r = if api == "read2" { v.read2(*k)? } else { v.read(*k)? };
                    match r {
                        Ok(got) => json!({"op":"readn","api":api,"k":k,"got":bytes_json(&got)}),
                        Err(m) => json!({"op":"readn_refused","api":api,"k":k,"msg":m}),
                    }
                }
                Op::Exact(k) | Op::Exact2(k) => {
                    let api = if matches!(op, Op::Exact2(_)) { "exact2" } else { "exact" };
                    let r = if api == "exact2" { v.exact2(*k)? } else { v.exact(*k)? };
                    match r {
                        Ok(Some(got)) => json!({"op":"read_exact","api":api,"k":k,"got":bytes_json(&got)}),
                        Ok(None) => json!({"op":"readn_refused","api":api,"k":k,"msg":"None"}),
                        Err(m) => json!({"op":"readn_refused","api":api,"k":k,"msg":m}),
                    }
                }
                Op::Peek(k) => match v.peek(*k)? {
                    // fill_buf-style peeks show whatever is buffered: the request size is what was shown
                    Ok(Some(got)) => json!({"op":"peek","k":(*k).max(got.len()),"got":bytes_json(&got)}),
                    Ok(None) => json!({"op":"readn_refused","api":"peek","k":k,"msg":"None"}),
                    Err(m) => json!({"op":"readn_refused","api":"peek","k":k,"msg":m}),
                },
                Op::Skip(k) => match v.skip(*k)? {
                    Ok(()) => json!({"op":"skip","k":k}),
                    Err(m) => json!({"op":"readn_refused","api":"skip","k":k,"msg":m}),
                },
                Op::SkipPeeked => {
                    let k = peeked.min(3);
                    match v.skip(k)? {
                        Ok(()) => json!({"op":"skip","k":k}),
                        Err(m) => json!({"op":"readn_refused","api":"skip","k":k,"msg":m}),
                    }
                }
                Op::Seek(w, o) => {
                    let t = match *w {
                        "start" => *o,
                        "cur" => dc as i64 + *o,
                        _ => vlen as i64 + *o,
                    };
                    if t < 0 || t > vlen as i64 {
                        return None;
                    }
                    match v.seek(w, *o)? {
                        Ok(r) => json!({"op":"seek","whence":w,"o":o,"r":r,"t":t}),
                        Err(m) => json!({"op":"readn_refused","api":"seek","k":0,"msg":m}),
                    }
                }
                Op::SeekAbs(t) => {
                    if *t > vlen {
                        return None;
                    }
                    match v.seek("start", *t as i64)? {
                        Ok(r) => json!({"op":"seek","whence":"start","o":t,"r":r,"t":t}),
                        Err(m) => json!({"op":"readn_refused","api":"seek","k":0,"msg":m}),
                    }
                }
                Op::Read3(k) => match v.read3(*k)? {
                    Ok(got) => json!({"op":"readn","api":"read3","k":k,"got":bytes_json(&got)}),
                    Err(m) => json!({"op":"readn_refused","api":"read3","k":k,"msg":m}),
                },
                Op::Peek2(k) => match v.peek2(*k)? {
                    Ok(Some(got)) => json!({"op":"peek","api":"peek2","k":(*k).max(got.len()),"got":bytes_json(&got)}),
                    Ok(None) => json!({"op":"readn_refused","api":"peek2","k":k,"msg":"None"}),
                    Err(m) => json!({"op":"readn_refused","api":"peek2","k":k,"msg":m}),
                },
                Op::Rewind => match v.rewind()? {
                    Ok(r) => json!({"op":"seek","api":"reset","whence":"start","o":0,"r":r,"t":0}),
                    Err(m) => json!({"op":"readn_refused","api":"seek","k":0,"msg":m}),
                },
                Op::ExactRem(_) | Op::SkipRem(_) | Op::SkipLeave(_) => return None, // expanded above
                Op::AtEnd => json!({"op":"at_end","r":v.at_end()?}),
                Op::VLen => json!({"op":"vlen","r":v.vlen()?}),
                Op::Pos => json!({"op":"pos","r":v.pos()?}),
                Op::Remaining => json!({"op":"remaining","r":v.remaining()?}),
            })
        });
        match res {
            Ok(None) => {}
            Ok(Some(mut e)) => {
                if cap.is_some() {
                    e["overcap"] = json!(overcap);
                }
                if e["op"] == "readn_refused" {
                    let (t1, t2) = v.total();
                    let api = e["api"].as_str().unwrap_or("").to_string();
                    if (t1 && (api == "exact" || api == "skip")) || (t2 && api == "exact2") {
                        e["need"] = e["k"].clone();
                    }
                }
                if let (Some(c), Op::Read2(k) | Op::Exact(k) | Op::Peek(k) | Op::Peek2(k)) = (cap, &op) {
                    if *k > c {
                        overcap = true;
                    }
                }
                match e["op"].as_str().unwrap_or("") {
                    "readn" | "read_exact" => {
                        let g = e["got"].as_array().map_or(0, |a| a.len());
                        dc += g;
                        peeked = 0;
                        if g > 0 {
                            nontrivial = true;
                        }
                        if let Op::Drain(k) = &op {
                            if g > 0 {
                                ops.push(Op::Drain(*k));
                            }
                        }
                    }
                    "peek" => peeked = e["got"].as_array().map_or(0, |a| a.len()),
                    "skip" => {
                        dc += e["k"].as_u64().unwrap_or(0) as usize;
                        peeked = 0;
                    }
                    "seek" => {
                        // follow the position the implementation reports
                        dc = (e["r"].as_u64().unwrap_or(0) as usize).min(vlen);
                        peeked = 0;
                    }
                    _ => {}
                }
                let stop = e["op"] == "readn_refused" && e["api"] == "skip" && v.skip_err_unspecified();
                cx.ev(subject, e);
                if stop {
                    break;
                }
            }
            Err(m) => {
                cx.ev(subject, json!({"op":"panic","in":format!("{op:?}"),"msg":m.chars().take(100).collect::<String>()}));
                std::mem::forget(v);
                return;
            }
        }
    }
    if nontrivial {
        cx.case(subject, &format!("{:?}/{:?}/{}", prog, ranges, src.len()));
    }
}

fn arr_src(rng: &mut Rng, n: usize) -> Src {
    Src::Arr(rng.bytes(n))
}
fn pat_src(rng: &mut Rng, n: usize) -> Src {
    Src::Pat { len: n, a: 2 * rng.range(1, 120) + 1, b: 251 }
}

/// every sequence of `len` read sizes over `sizes`, each followed by a drain
fn all_sequences(sizes: &[usize], len: usize, drain: usize, read2: bool) -> Vec<Vec<Op>> {
    let mut out: Vec<Vec<Op>> = vec![vec![]];
    for _ in 0..len {
        let mut nxt = vec![];
        for p in &out {
            for &s in sizes {
                let mut q = p.clone();
                q.push(if read2 { Op::Read2(s) } else { Op::Read(s) });
                nxt.push(q);
            }
        }
        out = nxt;
    }
    for p in out.iter_mut() {
        p.push(Op::Drain(drain));
    }
    out
}
/// random programs over every operation the view offers
/// `seek_cur`: relative seeks are issued; `maxreq`: bound on the size of look-ahead style requests
/// (second read API, exact reads, peeks) - the regions beyond are driven by dedicated subjects
fn random_prog(rng: &mut Rng, vlen: usize, sizes: &[usize], steps: usize) -> Vec<Op> {
    random_prog_x(rng, vlen, sizes, steps, true, usize::MAX)
}
fn random_prog_x(rng: &mut Rng, vlen: usize, sizes: &[usize], steps: usize, seek_cur: bool, maxreq: usize) -> Vec<Op> {
    let mut p = vec![];
    for _ in 0..steps {
        let k = *rng.pick(sizes);
        let c = rng.below(20);
        if (c == 15 && !seek_cur) || (k > maxreq && matches!(c, 6..=11)) {
            p.push(Op::Read(k));
            continue;
        }
        p.push(match c {
            0..=5 => Op::Read(k),
            6..=7 => Op::Read2(k),
            8..=9 => Op::Exact(k),
            10 => Op::Exact2(if rng.chance(1, 2) { 1 } else { k }),
            11 => Op::Peek(k),
            12 => Op::SkipPeeked,
            13 => Op::Skip(k),
            14 => Op::SeekAbs(rng.below(vlen as u64 + 1) as usize),
            15 => Op::Seek("cur", rng.below(7) as i64 - 3),
            16 => Op::Seek("end", -(rng.below(4) as i64)),
            17 => {
                if rng.chance(1, 2) {
                    Op::Pos
                } else {
                    Op::AtEnd
                }
            }
            18 => {
                if rng.chance(1, 2) {
                    Op::Remaining
                } else {
                    Op::VLen
                }
            }
            _ => match rng.below(5) {
                0 => Op::Read(0),
                4 => Op::Rewind,
                1 => Op::Read3(k),
                _ => {
                    if k > maxreq {
                        Op::Read3(k)
                    } else {
                        Op::Peek2(k)
                    }
                }
            },
        });
    }
    // the end of the view: one byte too many must be refused and must not move the cursor,
    // an exact fit must succeed (on half of the programs; the others drain with reads)
    p.push(Op::SkipRem(1));
    p.push(Op::ExactRem(1));
    p.push(Op::Pos);
    if rng.chance(1, 2) {
        // one byte before the end, then at the end: every observer and look-ahead
        p.push(Op::SkipLeave(1));
        for o in [Op::AtEnd, Op::Remaining, Op::Peek2(4), Op::Peek(4), Op::Pos] {
            p.push(o);
        }
        p.push(Op::Exact(1));
        for o in [Op::AtEnd, Op::Remaining, Op::Peek2(2), Op::Peek(2)] {
            p.push(o);
        }
    }
    if rng.chance(1, 2) {
        if rng.chance(1, 2) {
            p.push(Op::ExactRem(0));
        } else {
            p.push(Op::SkipRem(0));
        }
        p.push(Op::Exact(1));
        p.push(Op::Skip(1));
    }
    // the final drain never takes more than ~40 reads
    p.push(Op::Drain((*rng.pick(sizes)).max(vlen / 40 + 1)));
    p.push(Op::Pos);
    p.push(Op::Remaining);
    p.push(Op::AtEnd);
    p.push(Op::VLen);
    p
}

fn sbr_cfg(b: usize, maxcap: usize, bulk: usize, readahead: bool) -> StreamBufferConfig {
    StreamBufferConfig {
        initial_capacity: b,
        max_capacity: maxcap,
        growth_factor: 1.618,
        page_alignment: 1,
        use_secure_pool: false,
        bulk_read_threshold: bulk,
        enable_readahead: readahead,
        readahead_multiplier: 2,
    }
}

fn drive_views(cx: &mut Cx, rng0: &Rng) {
    let thorough = cx.a.thorough();
    // ---- RangeReader
    for variant in ["new_and_seek", "fn_reader", "with_range", "total_size", "seek_in_range", "chunked"] {
        let subject = format!("rd:range-{variant}");
        if !cx.a.wants(&subject) {
            continue;
        }
        let mut rng = rng0.derive(&subject);
        let nruns = if thorough { 60 } else { 14 };
        for run in 0..nruns {
            let n = rng.range(0, 40) as usize;
            let src = arr_src(&mut rng, n);
            let lo = rng.below(n as u64 + 1) as usize;
            let mut hi = lo + rng.below((n - lo) as u64 + 1) as usize;
            if run % 5 == 0 {
                hi = n;
            }
            let total = lo + rng.below((hi - lo) as u64 + 1) as usize;
            let eff_hi = if variant == "total_size" { total } else { hi };
            let var = variant.to_string();
            let make = move |s: &Src| -> Result<Box<dyn View>, String> {
                let c = Cursor::new(s.bytes());
                Ok(match var.as_str() {
                    "new_and_seek" => Box::new(RangeV(RangeReader::new_and_seek(c, lo as u64, (hi - lo) as u64).map_err(es)?, false)),
                    "fn_reader" => Box::new(RangeV(zipora::io::range::reader(c, lo as u64, (hi - lo) as u64).map_err(es)?, false)),
                    "with_range" => {
                        let mut c = c;
                        c.seek(SeekFrom::Start(lo as u64)).map_err(es)?;
                        Box::new(RangeV(RangeReader::with_range(c, lo as u64, hi as u64), false))
                    }
                    "total_size" => {
                        let mut r = RangeReader::new_and_seek(c, lo as u64, (hi - lo) as u64).map_err(es)?;
                        r.set_total_size(total as u64);
                        Box::new(RangeV(r, false))
                    }
                    "seek_in_range" => Box::new(RangeV(RangeReader::new_and_seek(c, lo as u64, (hi - lo) as u64).map_err(es)?, true)),
                    _ => {
                        // a non-seekable inner reader already positioned at lo
                        let mut ch = Chunked { inner: c, m: 3 };
                        let mut skip = vec![0u8; lo];
                        ch.inner.read_exact(&mut skip).map_err(es)?;
                        Box::new(RangeC(RangeReader::new(ch, lo as u64, (hi - lo) as u64)))
                    }
                })
            };
            let prog = random_prog(&mut rng, eff_hi - lo, &[1, 2, 3, 5, 8, 13, 64], 14);
            run_view(cx, &subject, &src, &[(lo, eff_hi)], json!({"lo":lo,"hi":eff_hi,"run":run}), &make, &prog);
        }
    }
    // ---- MultiRangeReader
    if cx.a.wants("rd:multirange") {
        let subject = "rd:multirange";
        let mut rng = rng0.derive(subject);
        for run in 0..(if thorough { 60 } else { 16 }) {
            let n = rng.range(1, 40) as usize;
            let src = arr_src(&mut rng, n);
            let nr = rng.range(0, 4) as usize;
            let mut ranges = vec![];
            for _ in 0..nr {
                let a = rng.below(n as u64 + 1) as usize;
                let b = a + rng.below((n - a) as u64 + 1) as usize;
                ranges.push((a, b));
            }
            let r2: Vec<(u64, u64)> = ranges.iter().map(|&(a, b)| (a as u64, b as u64)).collect();
            let incremental = run % 2 == 1;
            let make = move |s: &Src| -> Result<Box<dyn View>, String> {
                if incremental {
                    let mut m = MultiRangeReader::new(Cursor::new(s.bytes()), vec![]);
                    for &(a, b) in &r2 {
                        m.add_range(a, b);
                    }
                    if m.current_range() != r2.first().copied() {
                        panic!("current_range() is not the first range added");
                    }
                    Ok(Box::new(MultiV(m)))
                } else {
                    Ok(Box::new(MultiV(MultiRangeReader::new(Cursor::new(s.bytes()), r2.clone()))))
                }
            };
            let k = rng.range(1, 9) as usize;
            let prog = vec![Op::VLen, Op::Read(rng.range(0, 5) as usize), Op::Read(k), Op::Drain(rng.range(1, 12) as usize)];
            run_view(cx, subject, &src, &ranges, json!({"run":run}), &make, &prog);
        }
    }
    // ---- StreamBufferedReader: every read-size sequence over small buffers
    for &b in &[1usize, 2, 7, 8, 4096] {
        for inner in ["cursor", "chunked"] {
            let subject = format!("rd:buffered-{b}-{inner}");
            if !cx.a.wants(&subject) {
                continue;
            }
            let mut rng = rng0.derive(&subject);
            let chunked = inner == "chunked";
            let (sizes, seqlen, n): (Vec<usize>, usize, usize) = if b <= 8 {
                let mut s = vec![1usize, 2, 3, b, b + 1, 2 * b + 1];
                s.sort();
                s.dedup();
                (s, if thorough { 4 } else { 3 }, 3 * (2 * b + 1) + 9)
            } else {
                (vec![1, 4095, 4096, 4097, 8191, 8192, 9000], 2, if thorough { 40000 } else { 24000 })
            };
            let mut progs = all_sequences(&sizes, seqlen, if b <= 8 { sizes[1 % sizes.len()] } else { 9000 }, false);
            if chunked || !thorough {
                // the second read API and the short-read inner reader get a seeded sample of the sequences
                let keep = if b <= 8 { 40 } else { 8 };
                rng.shuffle(&mut progs);
                progs.truncate(keep);
            }
            let mut p2 = all_sequences(&sizes, 2, if b <= 8 { sizes[0] } else { 5000 }, true);
            rng.shuffle(&mut p2);
            p2.truncate(if b <= 8 { 12 } else { 3 });
            progs.extend(p2);
            for _ in 0..(if thorough { 40 } else { 10 }) {
                progs.push(random_prog_x(&mut rng, n, &sizes, 12, false, usize::MAX));
            }
            for (pi, prog) in progs.iter().enumerate() {
                let src = if b <= 8 { arr_src(&mut rng, n) } else { pat_src(&mut rng, n) };
                let bulk = if pi % 4 == 3 { 4 } else { 8192 };
                let ra = pi % 2 == 0;
                let maxcap = if pi % 7 == 6 { b } else { 1 << 20 };
                let make = move |s: &Src| -> Result<Box<dyn View>, String> {
                    let cfg = sbr_cfg(b, maxcap, bulk, ra);
                    if chunked {
                        let r = StreamBufferedReader::with_config(Chunked { inner: Cursor::new(s.bytes()), m: if b <= 8 { 3 } else { 1500 } }, cfg).map_err(es)?;
                        Ok(Box::new(BufV { r, seekable: None }))
                    } else {
                        let r = StreamBufferedReader::with_config(Cursor::new(s.bytes()), cfg).map_err(es)?;
                        Ok(Box::new(BufV { r, seekable: Some(|r, p| r.seek(p)) }))
                    }
                };
                run_view(cx, &subject, &src, &[(0, n)], json!({"b":b,"bulk":bulk,"readahead":ra,"max":maxcap,"prog":pi}), &make, prog);
            }
        }
    }
    // the stock configurations on a large generated stream
    for preset in ["default", "performance", "memory", "latency"] {
        let subject = format!("rd:buffered-preset-{preset}");
        if !cx.a.wants(&subject) {
            continue;
        }
        let mut rng = rng0.derive(&subject);
        let n = 150_000usize;
        let src = pat_src(&mut rng, n);
        let p = preset.to_string();
        let make = move |s: &Src| -> Result<Box<dyn View>, String> {
            let c = Cursor::new(s.bytes());
            let r = match p.as_str() {
                "default" => StreamBufferedReader::new(c),
                "performance" => StreamBufferedReader::performance_optimized(c),
                "memory" => StreamBufferedReader::memory_efficient(c),
                _ => StreamBufferedReader::low_latency(c),
            }
            .map_err(es)?;
            Ok(Box::new(BufV { r, seekable: Some(|r, p| r.seek(p)) }))
        };
        let prog = vec![Op::Read(5), Op::Exact(1000), Op::Read(2047), Op::Read(8192), Op::Read2(3000), Op::Read(20000), Op::Peek(1), Op::Exact2(1), Op::Read(70000), Op::Drain(16384)];
        run_view(cx, &subject, &src, &[(0, n)], json!({"preset":preset}), &make, &prog);
    }
    // ---- ZeroCopyReader
    for &c in &[1usize, 2, 7, 8, 64, 4096] {
        for inner in ["cursor", "chunked"] {
            let subject = format!("rd:zerocopy-{c}-{inner}");
            if !cx.a.wants(&subject) {
                continue;
            }
            let mut rng = rng0.derive(&subject);
            let chunked = inner == "chunked";
            let (sizes, n): (Vec<usize>, usize) = if c <= 64 {
                let mut s = vec![1usize, 2, 3, (c / 2).saturating_sub(1), c / 2, c, c + 1, 2 * c + 1];
                s.retain(|&x| x > 0);
                s.sort();
                s.dedup();
                (s, 3 * (2 * c + 1) + 9)
            } else {
                (vec![1, 2047, 2048, 4095, 4096, 4097, 9000], 22000)
            };
            let drain = if c <= 8 { sizes[1 % sizes.len()] } else if c <= 64 { c / 2 + 3 } else { 9000 };
            let mut progs = all_sequences(&sizes, if c <= 8 { 3 } else { 2 }, drain, false);
            rng.shuffle(&mut progs);
            progs.truncate(if thorough { 200 } else if c <= 8 { 36 } else { 8 });
            let within: Vec<usize> = sizes.iter().copied().filter(|&k| k <= c).collect();
            let mut p2 = all_sequences(&within, 2, if c <= 8 { sizes[0] } else { drain }, true);
            rng.shuffle(&mut p2);
            p2.truncate(if c <= 64 { 10 } else { 3 });
            progs.extend(p2);
            for _ in 0..(if thorough { 40 } else { 10 }) {
                progs.push(random_prog_x(&mut rng, n, &sizes, 12, true, c));
            }
            for (pi, prog) in progs.iter().enumerate() {
                let src = if c <= 64 { arr_src(&mut rng, n) } else { pat_src(&mut rng, n) };
                let secure = pi % 9 == 8;
                let make = move |s: &Src| -> Result<Box<dyn View>, String> {
                    if chunked {
                        let inner = Chunked { inner: Cursor::new(s.bytes()), m: if c <= 64 { 3 } else { 1500 } };
                        Ok(Box::new(ZcV(if secure { ZeroCopyReader::with_secure_buffer(inner, c) } else { ZeroCopyReader::with_capacity(inner, c) }.map_err(es)?)))
                    } else {
                        let inner = Cursor::new(s.bytes());
                        Ok(Box::new(ZcV(if secure { ZeroCopyReader::with_secure_buffer(inner, c) } else { ZeroCopyReader::with_capacity(inner, c) }.map_err(es)?)))
                    }
                };
                run_view(cx, &subject, &src, &[(0, n)], json!({"cap":c,"prog":pi}), &make, prog);
            }
        }
    }
    // ---- StreamBufferedReader: relative seeks while bytes are buffered (all buffer sizes)
    if cx.a.wants("rd:buffered_seekcur") {
        let subject = "rd:buffered_seekcur";
        let mut rng = rng0.derive(subject);
        for run in 0..(if thorough { 80 } else { 20 }) {
            let b = *rng.pick(&[1usize, 2, 7, 8, 4096]);
            let n = if b <= 8 { 3 * (2 * b + 1) + 9 } else { 9000 };
            let src = if b <= 8 { arr_src(&mut rng, n) } else { pat_src(&mut rng, n) };
            let sizes: Vec<usize> = if b <= 8 { vec![1, 2, 3, b, b + 1] } else { vec![1, 7, 100, 1000] };
            let mut prog = vec![];
            for _ in 0..6 {
                prog.push(Op::Read(*rng.pick(&sizes)));
                prog.push(Op::Seek("cur", rng.below(7) as i64 - 3));
                if rng.chance(1, 3) {
                    prog.push(Op::Peek(1));
                    prog.push(Op::Seek("cur", rng.below(3) as i64));
                }
            }
            prog.push(Op::Drain(n / 10 + 1));
            let ra = run % 2 == 0;
            let make = move |s: &Src| -> Result<Box<dyn View>, String> {
                let r = StreamBufferedReader::with_config(Cursor::new(s.bytes()), sbr_cfg(b, 1 << 20, 8192, ra)).map_err(es)?;
                Ok(Box::new(BufV { r, seekable: Some(|r, p| r.seek(p)) }))
            };
            run_view(cx, subject, &src, &[(0, n)], json!({"b":b,"readahead":ra,"run":run}), &make, &prog);
        }
    }
    // ---- ZeroCopyReader: look-ahead requests larger than the buffer, then small reads
    if cx.a.wants("rd:zerocopy_over") {
        let subject = "rd:zerocopy_over";
        let mut rng = rng0.derive(subject);
        for run in 0..(if thorough { 90 } else { 24 }) {
            let c = *rng.pick(&[1usize, 2, 7, 8, 64, 4096]);
            let chunked = run % 2 == 1;
            let n = if c <= 64 { 3 * (2 * c + 1) + 9 } else { 22000 };
            let src = if c <= 64 { arr_src(&mut rng, n) } else { pat_src(&mut rng, n) };
            let over = [c + 1, 2 * c + 1, c + 9];
            let small: Vec<usize> = vec![1, 2, 3, (c / 2).max(1)];
            let mut prog = vec![Op::Read(*rng.pick(&small))];
            prog.push(match run % 3 {
                0 => Op::Read2(*rng.pick(&over)),
                1 => Op::Peek(*rng.pick(&over)),
                _ => Op::Exact(*rng.pick(&over)),
            });
            for _ in 0..4 {
                prog.push(Op::Read(*rng.pick(&small)));
            }
            prog.push(Op::Exact(1));
            prog.push(Op::Drain((c / 2).max(1).min(n / 8 + 1)));
            prog.push(Op::Read(c + 5));
            let make = move |s: &Src| -> Result<Box<dyn View>, String> {
                if chunked {
                    Ok(Box::new(ZcV(ZeroCopyReader::with_capacity(Chunked { inner: Cursor::new(s.bytes()), m: if c <= 64 { 3 } else { 1500 } }, c).map_err(es)?)))
                } else {
                    Ok(Box::new(ZcV(ZeroCopyReader::with_capacity(Cursor::new(s.bytes()), c).map_err(es)?)))
                }
            };
            run_view(cx, subject, &src, &[(0, n)], json!({"cap":c,"chunked":chunked,"run":run}), &make, &prog);
        }
    }
    // ---- ZeroCopyReader::new (stock 64 KiB buffer) on a large generated stream
    if cx.a.wants("rd:zerocopy-default") {
        let subject = "rd:zerocopy-default";
        let mut rng = rng0.derive(subject);
        for chunked in [false, true] {
            let n = 200_000usize;
            let src = pat_src(&mut rng, n);
            let make = move |s: &Src| -> Result<Box<dyn View>, String> {
                if chunked {
                    Ok(Box::new(ZcV(ZeroCopyReader::new(Chunked { inner: Cursor::new(s.bytes()), m: 20_000 }).map_err(es)?)))
                } else {
                    Ok(Box::new(ZcV(ZeroCopyReader::new(Cursor::new(s.bytes())).map_err(es)?)))
                }
            };
            let prog = vec![Op::Read(5), Op::Exact(1000), Op::Peek(3000), Op::Read(32767), Op::Read(32768), Op::Read2(20000), Op::Peek2(4096), Op::Skip(10), Op::Read(40000), Op::Exact(1), Op::Drain(30000)];
            run_view(cx, subject, &src, &[(0, n)], json!({"cap":65536,"chunked":chunked}), &make, &prog);
        }
    }
    // ---- SliceDataInput / MmapDataInput as views
    for subject in ["rd:slicedi", "rd:mmapdi-open", "rd:mmapdi-from_file"] {
        if !cx.a.wants(subject) {
            continue;
        }
        let mut rng = rng0.derive(subject);
        for run in 0..(if thorough { 30 } else { 8 }) {
            let n = rng.range(0, 80) as usize;
            let src = arr_src(&mut rng, n);
            let path = cx.path("di");
            let kind = subject.to_string();
            let make = move |s: &Src| -> Result<Box<dyn View>, String> {
                Ok(match kind.as_str() {
                    "rd:slicedi" => Box::new(SliceV(SliceDataInput::new(Box::leak(s.bytes().into_boxed_slice())))),
                    k => {
                        std::fs::write(&path, s.bytes()).map_err(es)?;
                        Box::new(MmapDiV(if k.ends_with("open") { MmapDataInput::open(&path) } else { zipora::io::from_file(&path) }.map_err(es)?))
                    }
                })
            };
            let prog = random_prog(&mut rng, n, &[1, 2, 3, 7, 16, 40], 14);
            run_view(cx, subject, &src, &[(0, n)], json!({"run":run}), &make, &prog);
        }
    }
    // ---- mmap readers
    for (subject, n, explicit) in [("rd:mmapzc-small", 90usize, true), ("rd:mmapzc-large", 30000, false)] {
        if !cx.a.wants(subject) {
            continue;
        }
        let mut rng = rng0.derive(subject);
        for run in 0..(if thorough { 30 } else { 8 }) {
            let src = if explicit { arr_src(&mut rng, n) } else { pat_src(&mut rng, n) };
            let path = cx.path("mmapzc");
            let p2 = path.clone();
            let make = move |s: &Src| -> Result<Box<dyn View>, String> {
                std::fs::write(&p2, s.bytes()).map_err(es)?;
                Ok(Box::new(MmapZcV(MmapZeroCopyReader::new(File::open(&p2).map_err(es)?).map_err(es)?)))
            };
            let sizes: Vec<usize> = if explicit { vec![1, 2, 3, 7, 16, 40] } else { vec![1, 100, 4096, 5000, 9999] };
            let prog = random_prog(&mut rng, n, &sizes, 14);
            run_view(cx, subject, &src, &[(0, n)], json!({"run":run}), &make, &prog);
        }
    }
    for (subject, n, explicit) in [("rd:mminput-buffered", 100usize, true), ("rd:mminput-buffered4096", 4096, false), ("rd:mminput-mmap", 4097, false), ("rd:mminput-mmap20k", 20000, false), ("rd:mminput-below1m", 1_048_575, false), ("rd:mminput-at1m", 1_048_576, false), ("rd:mminput-large", 1_200_000, false)] {
        if !cx.a.wants(subject) {
            continue;
        }
        let mut rng = rng0.derive(subject);
        let runs = if n > 100_000 { if thorough { 10 } else { 4 } } else if thorough { 30 } else { 8 };
        for run in 0..runs {
            let src = if explicit { arr_src(&mut rng, n) } else { pat_src(&mut rng, n) };
            let path = cx.path("mminput");
            let p2 = path.clone();
            // every constructor x access pattern (the pattern selects madvise / prefetch paths)
            let ctor = run % 5;
            let make = move |s: &Src| -> Result<Box<dyn View>, String> {
                use zipora::io::mmap::AccessPattern;
                std::fs::write(&p2, s.bytes()).map_err(es)?;
                let pat = [AccessPattern::Sequential, AccessPattern::Random, AccessPattern::Mixed, AccessPattern::Unknown][run % 4];
                Ok(Box::new(MmInV(match ctor {
                    0 => MemoryMappedInput::from_path(&p2),
                    1 => MemoryMappedInput::new(File::open(&p2).map_err(es)?),
                    2 | 3 => MemoryMappedInput::from_path_with_pattern(&p2, pat),
                    _ => MemoryMappedInput::new_with_pattern(File::open(&p2).map_err(es)?, pat),
                }
                .map_err(es)?)))
            };
            let sizes: Vec<usize> = if explicit { vec![1, 2, 3, 7, 16, 40] } else { vec![1, 7, 100, 1000, 4096, 5000] };
            let mut prog = random_prog(&mut rng, n, &sizes, 16);
            // exact reads only: drain in exact chunks
            prog.retain(|o| !matches!(o, Op::Drain(_)));
            for _ in 0..6 {
                prog.push(Op::Exact(*rng.pick(&sizes)));
            }
            prog.push(Op::Remaining);
            run_view(cx, subject, &src, &[(0, n)], json!({"run":run,"ctor":ctor,"pattern":run % 4}), &make, &prog);
        }
    }
    // ---- VectoredIO::read_vectored over inner readers that deliver short reads
    for inner in ["cursor", "chunked", "zerocopy8"] {
        let subject = format!("rd:vectored-{inner}");
        if !cx.a.wants(&subject) {
            continue;
        }
        let mut rng = rng0.derive(&subject);
        for run in 0..(if thorough { 40 } else { 10 }) {
            let n = rng.range(10, 60) as usize;
            let src = arr_src(&mut rng, n);
            let kind = inner.to_string();
            let make = move |s: &Src| -> Result<Box<dyn View>, String> {
                Ok(match kind.as_str() {
                    "cursor" => Box::new(VecV(Cursor::new(s.bytes()))),
                    "chunked" => Box::new(VecV(Chunked { inner: Cursor::new(s.bytes()), m: 3 })),
                    _ => Box::new(VecV(ZeroCopyReader::with_capacity(Cursor::new(s.bytes()), 8).map_err(es)?)),
                })
            };
            let prog = vec![Op::Read(rng.range(3, 12) as usize), Op::Read(rng.range(3, 30) as usize), Op::Drain(rng.range(3, 20) as usize)];
            run_view(cx, &subject, &src, &[(0, n)], json!({"run":run}), &make, &prog);
        }
    }
}

// ---------------------------------------------------------------- part 2b: FIFO buffer and writers

fn drive_zcbuf(cx: &mut Cx, rng0: &Rng) {
    let subject = "rd:zcbuf";
    if !cx.a.wants(subject) {
        return;
    }
    let mut rng = rng0.derive(subject);
    for run in 0..(if cx.a.thorough() { 60 } else { 16 }) {
        let cap = *rng.pick(&[0usize, 1, 2, 7, 8, 16, 64]);
        cx.reset(subject, json!({"cap":cap,"run":run,"secure":run % 5 == 4}));
        cx.ev(subject, json!({"op":"open","src":{"kind":"arr","arr":[]},"ranges":[[0,0]]}));
        let mut b = match guard(|| if run % 5 == 4 { ZeroCopyBuffer::with_secure_pool(cap) } else { ZeroCopyBuffer::new(cap) }) {
            Ok(Ok(b)) => b,
            _ => continue,
        };
        let mut moved = false;
        for _ in 0..30 {
            let k = rng.range(0, (cap as u64).max(2) + 1) as usize;
            let e = guard(|| -> Value {
                match rng.below(9) {
                    0..=2 => {
                        // producer: reserve, fill, commit
                        let data = rng.bytes(k);
                        let avail = match b.zc_ensure_write(k) {
                            Ok(a) => a,
                            Err(m) => return json!({"op":"write_refused","codec":"zc_ensure_write","v":[],"msg":es(m)}),
                        };
                        if avail < k {
                            return json!({"op":"maintain","api":"zc_ensure_write","k":k,"avail":avail});
                        }
                        match b.zc_write(k) {
                            Ok(Some(s)) => s.copy_from_slice(&data),
                            Ok(None) => return json!({"op":"write_refused","codec":"zc_write","v":[],"msg":"None"}),
                            Err(m) => return json!({"op":"write_refused","codec":"zc_write","v":[],"msg":es(m)}),
                        }
                        match b.zc_commit(k) {
                            Ok(()) => json!({"op":"extend","api":"zc_write+commit","data":bytes_json(&data)}),
                            Err(m) => json!({"op":"write_refused","codec":"zc_commit","v":[],"msg":es(m)}),
                        }
                    }
                    3 if k % 2 == 1 => {
                        // producer: write into writable_slice(), then commit
                        let avail = b.write_available();
                        if b.is_full() != (avail == 0) || b.write_position() + avail != b.capacity() || b.read_position() + b.available() != b.write_position() {
                            panic!("ZeroCopyBuffer observers disagree");
                        }
                        let n = k.min(avail);
                        let data = rng.bytes(n);
                        let ws = b.writable_slice();
                        if ws.len() != avail {
                            panic!("writable_slice().len() = {} but write_available() = {avail}", ws.len());
                        }
                        ws[..n].copy_from_slice(&data);
                        match b.zc_commit(n) {
                            Ok(()) => json!({"op":"extend","api":"writable_slice+commit","data":bytes_json(&data)}),
                            Err(m) => json!({"op":"write_refused","codec":"zc_commit","v":[],"msg":es(m)}),
                        }
                    }
                    3 => {
                        // producer: fill_from a reader
                        let data = rng.bytes(k);
                        let mut c = Cursor::new(data.clone());
                        match b.fill_from(&mut c) {
                            Ok(n) => json!({"op":"extend","api":"fill_from","data":bytes_json(&data[..n.min(data.len())]),"n":n}),
                            Err(m) => json!({"op":"write_refused","codec":"fill_from","v":[],"msg":es(m)}),
                        }
                    }
                    4..=5 => {
                        let got = match b.zc_read(k) {
                            Ok(Some(s)) => s.to_vec(),
                            Ok(None) => return json!({"op":"readn_refused","api":"zc_read","k":k,"msg":"None"}),
                            Err(m) => return json!({"op":"readn_refused","api":"zc_read","k":k,"msg":es(m)}),
                        };
                        match b.zc_advance(k) {
                            Ok(()) => json!({"op":"read_exact","api":"zc_read+advance","k":k,"got":bytes_json(&got)}),
                            Err(m) => json!({"op":"readn_refused","api":"zc_advance","k":k,"msg":es(m)}),
                        }
                    }
                    6 => {
                        let mut sink = ShortW { inner: vec![], m: k.max(1) };
                        match b.drain_to(&mut sink) {
                            Ok(n) => json!({"op":"readn","api":"drain_to","k":k.max(1),"got":bytes_json(&sink.inner),"n":n}),
                            Err(m) => json!({"op":"readn_refused","api":"drain_to","k":k,"msg":es(m)}),
                        }
                    }
                    7 => {
                        let s = b.readable_slice().to_vec();
                        json!({"op":"peek","api":"readable_slice","k":s.len(),"got":bytes_json(&s),"available":b.available()})
                    }
                    _ => {
                        b.compact();
                        json!({"op":"maintain","api":"compact"})
                    }
                }
            });
            match e {
                Ok(e) => {
                    if e["op"] == "read_exact" && k > 0 {
                        moved = true;
                    }
                    cx.ev(subject, e)
                }
                Err(m) => {
                    cx.ev(subject, json!({"op":"panic","in":"zcbuf","msg":m}));
                    std::mem::forget(b);
                    return;
                }
            }
        }
        let rem = b.available();
        cx.ev(subject, json!({"op":"remaining","r":rem}));
        if moved {
            cx.case(subject, &format!("{cap}/{run}"));
        }
    }
}

/// writers: arbitrary write sizes, then flush; the sink must hold exactly the accepted bytes
fn drive_writers(cx: &mut Cx, rng0: &Rng) {
    let thorough = cx.a.thorough();
    let mut kinds: Vec<String> = vec![];
    for b in [1usize, 2, 7, 8, 4096] {
        kinds.push(format!("wr:buffered-{b}"));
    }
    for c in [1usize, 2, 7, 8, 64, 4096] {
        kinds.push(format!("wr:zerocopy-{c}"));
    }
    kinds.push("wr:range".into());
    kinds.push("wr:vectored-short".into());
    kinds.push("wr:vectored-range".into());
    for subject in kinds {
        if !cx.a.wants(&subject) {
            continue;
        }
        let mut rng = rng0.derive(&subject);
        let param: usize = subject.rsplit('-').next().and_then(|s| s.parse().ok()).unwrap_or(0);
        for run in 0..(if thorough { 60 } else { 14 }) {
            let sizes: Vec<usize> = if subject.starts_with("wr:vectored") {
                vec![0, 1, 2, 5, 8, 9, 13, 16]
            } else if param >= 4096 {
                vec![1, 100, 2047, 2048, 4095, 4096, 4097, 9000]
            } else {
                vec![0, 1, 2, 3, param / 2 + 1, param.max(1), param + 1, 2 * param + 1]
            };
            let nwrites = rng.range(1, 8) as usize;
            let (lo, cap) = if subject.contains("range") { (rng.below(10) as usize, rng.below(30) as usize) } else { (0, usize::MAX) };
            let prefill: Vec<u8> = (0..(lo + if cap == usize::MAX { 0 } else { cap } + 9)).map(|i| 0xC0 | (i as u8 & 0x3f)).collect();
            let capj: i64 = if cap == usize::MAX { -1 } else { cap as i64 };
            cx.reset(&subject, json!({"run":run,"param":param,"lo":lo,"cap":capj}));
            let r = guard(|| -> Result<(), String> {
                enum W {
                    B(StreamBufferedWriter<Vec<u8>>),
                    Z(ZeroCopyWriter<Vec<u8>>),
                    R(RangeWriter<Cursor<Vec<u8>>>),
                    VS(ShortW),
                }
                let mut w = if subject.starts_with("wr:buffered") {
                    let bulk = if run % 3 == 2 { 4 } else { 8192 };
                    W::B(StreamBufferedWriter::with_config(Vec::new(), sbr_cfg(param, param, bulk, false)).map_err(es)?)
                } else if subject.starts_with("wr:zerocopy") {
                    W::Z(ZeroCopyWriter::with_capacity(Vec::new(), param).map_err(es)?)
                } else if subject == "wr:vectored-short" {
                    W::VS(ShortW { inner: vec![], m: 3 })
                } else {
                    W::R(RangeWriter::new_and_seek(Cursor::new(prefill.clone()), lo as u64, cap as u64).map_err(es)?)
                };
                let mut accepted = 0usize;
                for wi in 0..nwrites {
                    let k = *rng.pick(&sizes);
                    let data = rng.bytes(k);
                    let vectored = subject.starts_with("wr:vectored");
                    let res: io::Result<usize> = if vectored {
                        let (a, b) = data.split_at(k / 2);
                        let bufs = [IoSlice::new(a), IoSlice::new(b)];
                        match &mut w {
                            W::VS(x) => VectoredIO::write_vectored(x, &bufs),
                            W::R(x) => VectoredIO::write_vectored(x, &bufs),
                            _ => unreachable!(),
                        }
                    } else {
                        match &mut w {
                            W::B(x) => {
                                if k == 1 && wi % 2 == 0 {
                                    x.write_byte_fast(data[0]).map(|_| 1).map_err(|e| io::Error::new(io::ErrorKind::Other, e))
                                } else {
                                    x.write(&data)
                                }
                            }
                            W::Z(x) => {
                                if wi % 3 == 1 && k > 0 {
                                    // zero-copy path: reserve, fill, commit
                                    match x.zc_write(k) {
                                        Ok(Some(s)) => {
                                            s.copy_from_slice(&data);
                                            x.zc_commit(k).map(|_| k).map_err(|e| io::Error::new(io::ErrorKind::Other, e))
                                        }
                                        Ok(None) => Ok(0),
                                        Err(e) => Err(io::Error::new(io::ErrorKind::Other, e)),
                                    }
                                } else {
                                    x.write(&data)
                                }
                            }
                            W::R(x) => x.write(&data),
                            W::VS(x) => x.write(&data),
                        }
                    };
                    match res {
                        Ok(n) => {
                            accepted += n.min(k);
                            cx.ev(&subject, json!({"op":"accept","data":bytes_json(&data),"r":n,"cap":capj}));
                        }
                        Err(e) => cx.ev(&subject, json!({"op":"write_refused","codec":"write","v":[],"msg":es(e)})),
                    }
                }
                let (sink, window): (Vec<u8>, Option<(usize, usize)>) = match w {
                    W::B(mut x) => {
                        x.flush().map_err(es)?;
                        let tw = x.total_written();
                        let v = x.into_inner().map_err(es)?;
                        cx.ev(&subject, json!({"op":"batch_eq","what":"total_written vs sink length","batch":tw,"scalar":v.len()}));
                        (v, None)
                    }
                    W::Z(mut x) => {
                        x.flush().map_err(es)?;
                        (x.into_inner().map_err(es)?, None)
                    }
                    W::VS(x) => (x.inner, None),
                    W::R(mut x) => {
                        x.flush().map_err(es)?;
                        let bw = x.bytes_written();
                        cx.ev(&subject, json!({"op":"batch_eq","what":"bytes_written vs accepted","batch":bw,"scalar":accepted}));
                        (x.into_inner().into_inner(), Some((lo, lo + accepted)))
                    }
                };
                match window {
                    None => cx.ev(&subject, json!({"op":"sink","got":bytes_json(&sink),"ob":0,"oa":0})),
                    Some((a, b)) => {
                        let b = b.min(sink.len());
                        let mut before = prefill[..a.min(prefill.len())].to_vec();
                        before.extend_from_slice(&prefill[b.min(prefill.len())..]);
                        let mut after = sink[..a].to_vec();
                        after.extend_from_slice(&sink[b..]);
                        cx.ev(&subject, json!({"op":"sink","got":bytes_json(&sink[a..b]),"ob":bytes_json(&before),"oa":bytes_json(&after)}));
                    }
                }
                if accepted > 0 {
                    cx.case(&subject, &format!("{run}"));
                }
                Ok(())
            });
            match r {
                Ok(Ok(())) => {}
                Ok(Err(m)) => cx.ev(&subject, json!({"op":"write_refused","codec":"setup/flush","v":[],"msg":m})),
                Err(m) => cx.ev(&subject, json!({"op":"panic","in":"writer","msg":m.chars().take(100).collect::<String>()})),
            }
        }
    }
}

/// repositionable writers (RangeWriter / StreamBufferedWriter as io::Seek, MemoryMappedOutput::seek)
/// and the stock presets: writes of arbitrary sizes at arbitrary positions inside what was written;
/// the sink must equal the overwritten image
fn drive_seek_writers(cx: &mut Cx, rng0: &Rng) {
    let thorough = cx.a.thorough();
    for subject in ["wr:seek-range", "wr:seek-buffered", "wr:seek-mmapout", "wr:preset-buffered", "wr:preset-zerocopy"] {
        if !cx.a.wants(subject) {
            continue;
        }
        let mut rng = rng0.derive(subject);
        let preset = subject.starts_with("wr:preset");
        for run in 0..(if preset { 2 } else if thorough { 60 } else { 16 }) {
            let lo = if subject == "wr:seek-range" { rng.below(9) as usize } else { 0 };
            let cap: usize = if subject == "wr:seek-range" { rng.range(0, 40) as usize } else { usize::MAX };
            let capj: i64 = if cap == usize::MAX { -1 } else { cap as i64 };
            let prefill: Vec<u8> = (0..(lo + if cap == usize::MAX { 0 } else { cap } + 7)).map(|i| 0x80 | (i as u8 & 0x3f)).collect();
            let b = *rng.pick(&[1usize, 2, 7, 8, 64]);
            cx.reset(subject, json!({"run":run,"lo":lo,"cap":capj,"b":b}));
            let path = cx.path("mmo");
            let r = guard(|| -> Result<(), String> {
                enum W {
                    R(RangeWriter<Cursor<Vec<u8>>>),
                    B(StreamBufferedWriter<Cursor<Vec<u8>>>),
                    M(MemoryMappedOutput),
                    PB(StreamBufferedWriter<Vec<u8>>),
                    PZ(ZeroCopyWriter<Vec<u8>>),
                }
                let mut w = match subject {
                    "wr:seek-range" => W::R(if run % 2 == 0 { RangeWriter::new_and_seek(Cursor::new(prefill.clone()), lo as u64, cap as u64) } else { zipora::io::range::writer(Cursor::new(prefill.clone()), lo as u64, cap as u64) }.map_err(es)?),
                    "wr:seek-buffered" => W::B(StreamBufferedWriter::with_config(Cursor::new(Vec::new()), sbr_cfg(b, b, if run % 3 == 2 { 4 } else { 8192 }, false)).map_err(es)?),
                    "wr:seek-mmapout" => W::M(MemoryMappedOutput::create(&path, *rng.pick(&[1usize, 3, 16, 64])).map_err(es)?),
                    "wr:preset-buffered" => W::PB(StreamBufferedWriter::new(Vec::new()).map_err(es)?),
                    _ => W::PZ(ZeroCopyWriter::new(Vec::new()).map_err(es)?),
                };
                let sizes: Vec<usize> = if preset { vec![1, 100, 8191, 8192, 32767, 32768, 65535, 65536, 65537, 100_000] } else { vec![0, 1, 2, 3, 5, b, b + 1, 2 * b + 1] };
                let (mut dwp, mut dlen) = (0usize, 0usize); // the driver's idea of position / extent, following the reported values
                for _ in 0..(if preset { 8 } else { rng.range(2, 12) as usize }) {
                    let c = rng.below(10);
                    if c < 5 || preset {
                        let k = *rng.pick(&sizes);
                        let data = rng.bytes(k);
                        let res: io::Result<usize> = match &mut w {
                            W::R(x) => x.write(&data),
                            W::B(x) => x.write(&data),
                            W::M(x) => x.write_slice(&data).map(|_| k).map_err(|e| io::Error::new(io::ErrorKind::Other, e)),
                            W::PB(x) => x.write(&data),
                            W::PZ(x) => x.write(&data),
                        };
                        match res {
                            Ok(n) => {
                                dwp += n.min(k);
                                dlen = dlen.max(dwp);
                                let dj = if k > 64 { json!(bytes_json(&data)) } else { bytes_json(&data) };
                                cx.ev(subject, json!({"op":"accept","data":dj,"r":n,"cap":capj}));
                            }
                            Err(e) => cx.ev(subject, json!({"op":"write_refused","codec":"write","v":[],"msg":es(e)})),
                        }
                    } else if c < 8 {
                        // reposition inside what has been written
                        let (whence, o): (&str, i64) = match (rng.below(3), &w) {
                            (0, _) => ("start", rng.below(dlen as u64 + 1) as i64),
                            (1, W::M(_)) => ("start", rng.below(dlen as u64 + 1) as i64),
                            (1, _) => {
                                let t = rng.below(dlen as u64 + 1) as i64;
                                ("cur", t - dwp as i64)
                            }
                            (_, W::B(_)) => ("end", -(rng.below(dlen as u64 + 1) as i64)),
                            _ => ("start", dlen as i64),
                        };
                        let res: Result<u64, String> = match &mut w {
                            W::R(x) => x.seek(sf(whence, o)).map_err(es),
                            W::B(x) => x.seek(sf(whence, o)).map_err(es),
                            W::M(x) => x.seek(o as usize).map(|_| x.position() as u64).map_err(es),
                            _ => unreachable!(),
                        };
                        match res {
                            Ok(r) => {
                                dwp = (r as usize).min(dlen);
                                cx.ev(subject, json!({"op":"seekw","whence":whence,"o":o,"r":r}));
                            }
                            Err(m) => cx.ev(subject, json!({"op":"write_refused","codec":"seek","v":[],"msg":m})),
                        }
                    } else {
                        match &mut w {
                            W::R(x) => {
                                cx.ev(subject, json!({"op":"sink_pos","api":"current_position - start_position","r":x.current_position() - x.start_position()}));
                                cx.ev(subject, json!({"op":"sink_remaining","api":"remaining","r":x.remaining(),"cap":x.range_length()}));
                                cx.ev(subject, json!({"op":"sink_remaining","api":"end_position - current_position","r":x.end_position() - x.current_position(),"cap":capj}));
                                cx.ev(subject, json!({"op":"batch_eq","what":"RangeWriter::is_at_end vs remaining() == 0","batch":x.is_at_end(),"scalar":x.remaining() == 0}));
                            }
                            W::M(x) => {
                                cx.ev(subject, json!({"op":"sink_pos","api":"position","r":x.position()}));
                                cx.ev(subject, json!({"op":"sink_remaining","api":"remaining vs capacity","r":x.remaining(),"cap":x.capacity()}));
                            }
                            W::B(x) => cx.ev(subject, json!({"op":"sink_pos","api":"total_written + buffer_usage (stream_position)","r":x.stream_position().map_err(es)?})),
                            _ => {}
                        }
                    }
                }
                let (sink, window): (Vec<u8>, Option<(usize, usize)>) = match w {
                    W::R(mut x) => {
                        x.flush().map_err(es)?;
                        (x.into_inner().into_inner(), Some((lo, lo + dlen)))
                    }
                    W::B(mut x) => {
                        x.flush().map_err(es)?;
                        (x.into_inner().map_err(es)?.into_inner(), None)
                    }
                    W::M(mut x) => {
                        // truncate() cuts the file at the current position: go to the end of the data first
                        x.seek(dlen).map_err(es)?;
                        cx.ev(subject, json!({"op":"seekw","whence":"start","o":dlen,"r":x.position()}));
                        DataOutput::flush(&mut x).map_err(es)?;
                        if dlen > 0 {
                            x.truncate().map_err(es)?;
                        }
                        drop(x);
                        let mut f = std::fs::read(&path).map_err(es)?;
                        if dlen == 0 {
                            f.clear(); // nothing was written: the preallocated file is all padding
                        }
                        (f, None)
                    }
                    W::PB(mut x) => {
                        x.flush().map_err(es)?;
                        (x.into_inner().map_err(es)?, None)
                    }
                    W::PZ(mut x) => {
                        x.flush().map_err(es)?;
                        (x.into_inner().map_err(es)?, None)
                    }
                };
                match window {
                    None => cx.ev(subject, json!({"op":"sink","got":bytes_json(&sink),"ob":0,"oa":0})),
                    Some((a, b)) => {
                        let b = b.min(sink.len());
                        let mut before = prefill[..a.min(prefill.len())].to_vec();
                        before.extend_from_slice(&prefill[b.min(prefill.len())..]);
                        let mut after = sink[..a].to_vec();
                        after.extend_from_slice(&sink[b..]);
                        cx.ev(subject, json!({"op":"sink","got":bytes_json(&sink[a..b]),"ob":bytes_json(&before),"oa":bytes_json(&after)}));
                    }
                }
                if dlen > 0 {
                    cx.case(subject, &format!("{run}"));
                }
                Ok(())
            });
            match r {
                Ok(Ok(())) => {}
                Ok(Err(m)) => cx.ev(subject, json!({"op":"write_refused","codec":"setup/flush","v":[],"msg":m})),
                Err(m) => cx.ev(subject, json!({"op":"panic","in":"writer","msg":m.chars().take(100).collect::<String>()})),
            }
        }
    }
}

// ---------------------------------------------------------------- driver

fn drive(a: &Args) {
    let mut cx = Cx::new(a);
    let rng0 = Rng::new(a.seed);
    let thorough = a.thorough();
    let reps = if thorough { 10 } else { 1 };
    // ---- part 1: records under interleaved schedules
    let rec = |cx: &mut Cx, subject: &str, gen: &mut dyn FnMut(&mut Rng) -> Vec<Item>| {
        if !cx.a.wants(subject) {
            return;
        }
        for rep in 0..reps {
            let mut rng = rng0.derive(&format!("{subject}/{rep}"));
            let mut items = gen(&mut rng);
            rng.shuffle(&mut items);
            // runs of at most 60 records keep the validated states small
            let mut chunk = vec![];
            let mut part = 0usize;
            while !items.is_empty() {
                chunk.push(items.pop().unwrap());
                if chunk.len() == 60 || items.is_empty() {
                    run_items(cx, subject, std::mem::take(&mut chunk), &mut rng, json!({"rep":rep,"part":part}));
                    part += 1;
                }
            }
        }
    };
    for v in ["vec", "write", "write_short", "encode", "dataio", "signed", "multiple"] {
        rec(&mut cx, &format!("varint:{v}"), &mut |r| varint_items(v, r));
    }
    for &(name, st) in STRATEGIES {
        for kind in ["u64", "i64", "seq-u64", "seq-i64"] {
            let fam = if kind.starts_with("seq") { "encseq" } else { "enc" };
            let k2 = kind.trim_start_matches("seq-");
            rec(&mut cx, &format!("{fam}:{name}-{k2}"), &mut |r| enc_items(st, kind, r));
        }
    }
    rec(&mut cx, "encseq:auto-u64", &mut |r| auto_items(false, r));
    rec(&mut cx, "encseq:auto-i64", &mut |r| auto_items(true, r));
    for v in ["single", "global_single", "global_codec_single", "batch", "global_batch"] {
        rec(&mut cx, &format!("simd:{v}"), &mut |r| simd_items(v, r, thorough));
    }
    if a.wants("simd:batch_eq") {
        simd_batch_eq(&mut cx, &mut rng0.derive("simd:batch_eq"));
    }
    for (en, e) in [("little", Endianness::Little), ("big", Endianness::Big), ("native", Endianness::Native)] {
        rec(&mut cx, &format!("endian:{en}"), &mut |r| endian_items(en, e, r));
    }
    rec(&mut cx, "endian:magic", &mut |_| endian_magic_items());
    if a.wants("endian:slices") {
        endian_slices(&mut cx, &mut rng0.derive("endian:slices"));
    }
    rec(&mut cx, "prim:vec-slice", &mut |r| prim_ditems(r, true).iter().map(to_item).collect());
    for v in ["tuple", "array", "option", "map"] {
        rec(&mut cx, &format!("complex:{v}"), &mut |r| complex_ditems(v, r, true).iter().map(to_item).collect());
    }
    for c in ["new", "safe", "fast", "compact", "compatible"] {
        rec(&mut cx, &format!("complex:serializer-{c}"), &mut |r| complex_serializer_items(c, r));
    }
    for v in ["box", "rc"] {
        rec(&mut cx, &format!("smart:{v}"), &mut |r| smart_ditems(v, r).iter().map(to_item).collect());
    }
    rec(&mut cx, "smart:weak", &mut |r| smart_weak_items(r));
    rec(&mut cx, "smart:ctx-shared", &mut |r| smart_ctx_items(r, false, true));
    rec(&mut cx, "smart:ctx-shared-nocycle", &mut |r| smart_ctx_items(r, false, false));
    rec(&mut cx, "smart:ctx-temp", &mut |r| smart_ctx_items(r, true, true));
    for c in ["new", "performance", "space", "robust"] {
        rec(&mut cx, &format!("smart:serializer-{c}"), &mut |r| smart_serializer_items(c, r));
    }
    for v in ["version", "field", "proxy", "versioned"] {
        rec(&mut cx, &format!("ver:{v}"), &mut |r| version_ditems(v, r).iter().map(to_item).collect());
    }
    for c in ["new", "strict", "flexible", "development"] {
        rec(&mut cx, &format!("ver:serializer-{c}"), &mut |r| versioned_serializer_items(c, r));
    }
    rec(&mut cx, "ver:migration", &mut |r| migration_items(r));
    if a.wants("ver:preds") {
        version_preds(&mut cx);
    }
    // ---- part 1b: writer x reader back ends
    for &(o, i) in DIO_PAIRS {
        let subject = format!("dio:{o}-{i}");
        if !a.wants(&subject) {
            continue;
        }
        for rep in 0..reps {
            let mut rng = rng0.derive(&format!("{subject}/{rep}"));
            // small image (<= 4 KiB: buffered strategy of MemoryMappedInput) and a big one
            let mut small = prim_ditems(&mut rng, false);
            small.truncate(40);
            let mut mixed: Vec<DItem> = vec![];
            mixed.extend(complex_ditems("tuple", &mut rng, false).into_iter().take(8));
            mixed.extend(complex_ditems("map", &mut rng, false).into_iter().take(6));
            mixed.extend(smart_ditems("rc", &mut rng).into_iter().take(6));
            mixed.extend(version_ditems("field", &mut rng).into_iter().take(8));
            mixed.extend(small.iter().take(10).cloned());
            rng.shuffle(&mut mixed);
            let mut big = prim_ditems(&mut rng, true);
            big.truncate(if thorough { 200 } else { 90 });
            run_dio_pair(&mut cx, o, i, &small, "small");
            run_dio_pair(&mut cx, o, i, &mixed, "mixed");
            run_dio_pair(&mut cx, o, i, &big, "big");
        }
    }
    // ---- part 2: views and writers
    drive_views(&mut cx, &rng0);
    drive_zcbuf(&mut cx, &rng0);
    drive_writers(&mut cx, &rng0);
    drive_seek_writers(&mut cx, &rng0);
    cx.finish();
}

fn main() {
    let a = Args::parse();
    quiet_panics();
    match a.mode.as_str() {
        "drive" => drive(&a),
        m => {
            eprintln!("c13: unknown mode {m}");
            std::process::exit(2)
        }
    }
}
