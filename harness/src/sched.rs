//! Cooperative deterministic scheduler for real threads (binding B3).
//!
//! zipora, built with `--cfg zipora_verif`, calls `verif_hooks::sched_point(site,a,b)` between
//! the atomic steps of its concurrent mechanisms.  The callback installed here parks the calling
//! (managed) thread; the controller lets exactly one managed thread run from one schedule point
//! to the next, choosing the thread from a *schedule* (a sequence of thread ids, as produced by
//! TLC from the mechanism specifications, or random).  Between two steps every managed thread is
//! parked, so the controller can observe the shared object and log a consistent projection.
//!
//! A schedule only names thread ids, never sites: it is executable whatever the step structure
//! of the code is.  When the scheduled thread has finished, the entry is skipped; when the
//! schedule is exhausted the remaining threads run to completion one after another.
use serde_json::{json, Value};
use std::cell::Cell;
use std::panic::{self, AssertUnwindSafe};
use std::sync::{Arc, Condvar, Mutex};
use std::time::{Duration, Instant};

#[derive(Clone, Debug, PartialEq)]
enum TState {
    NotStarted,
    Parked(&'static str, u64, u64),
    Running,
    Finished,
}

struct Shared {
    st: Vec<TState>,
    token: Option<usize>, // thread allowed to run
    log: Vec<Value>,
    panicked: Vec<Option<String>>,
}

struct Ctl {
    m: Mutex<Shared>,
    cv: Condvar,
}

static CTL: Mutex<Option<Arc<Ctl>>> = Mutex::new(None);

thread_local! {
    static TID: Cell<Option<usize>> = const { Cell::new(None) };
}

fn ctl() -> Option<Arc<Ctl>> {
    CTL.lock().unwrap().clone()
}

/// thread id of the calling managed thread (None for unmanaged threads)
pub fn my_tid() -> Option<usize> {
    TID.with(|t| t.get())
}

fn on_sched(site: &'static str, a: u64, b: u64) {
    let tid = match my_tid() {
        Some(t) => t,
        None => return,
    };
    let c = match ctl() {
        Some(c) => c,
        None => return,
    };
    let mut g = c.m.lock().unwrap();
    g.st[tid] = TState::Parked(site, a, b);
    g.token = None;
    c.cv.notify_all();
    while g.token != Some(tid) {
        g = c.cv.wait(g).unwrap();
    }
    g.st[tid] = TState::Running;
}

/// Append an event to the run's log from a managed thread (or the controller's observer).
/// Only one managed thread runs at a time, so the log order is the execution order.
pub fn log(mut e: Value) {
    if let Some(c) = ctl() {
        if let (Some(t), Some(o)) = (my_tid(), e.as_object_mut()) {
            o.entry("t").or_insert(json!(t));
        }
        c.m.lock().unwrap().log.push(e);
    }
}

/// An explicit schedule point in harness code (e.g. between two API calls of a thread program).
pub fn yield_point(site: &'static str) {
    on_sched(site, 0, 0)
}

#[derive(Debug, Clone, PartialEq)]
pub enum RunEnd {
    Completed,
    /// a managed thread did not reach a schedule point within the time limit
    Stuck,
    /// more than `max_steps` steps
    StepLimit,
}

pub struct RunResult {
    pub end: RunEnd,
    pub steps: usize,
    /// the events logged by threads, the observer and the controller (`op:"step"`)
    pub log: Vec<Value>,
    /// the schedule actually executed (thread id per step)
    pub executed: Vec<usize>,
    pub panics: Vec<Option<String>>,
}

pub type Body = Box<dyn FnOnce() + Send + 'static>;

/// A managed thread that neither parks nor finishes within this many seconds of wall-clock time makes the
/// run `Stuck`.  Generous on purpose: a loaded or briefly stalled machine must not look like a livelock.
const STUCK_SECS: u64 = 60;

/// Run `bodies` as managed threads under `schedule`.  `observe` is called by the controller
/// after every step (all managed threads parked or finished) with the site at which each thread
/// is parked ("end" when finished); what it returns is merged into the `step` event.  `log_steps = false` suppresses the per-step events (only thread events).
pub fn run(
    bodies: Vec<Body>,
    schedule: &[usize],
    mut observe: impl FnMut(&[&'static str]) -> Value,
    log_steps: bool,
    max_steps: usize,
) -> RunResult {
    let n = bodies.len();
    let c = Arc::new(Ctl {
        m: Mutex::new(Shared {
            st: vec![TState::NotStarted; n],
            token: None,
            log: vec![],
            panicked: vec![None; n],
        }),
        cv: Condvar::new(),
    });
    *CTL.lock().unwrap() = Some(c.clone());
    zipora::verif_hooks::install_sched(Some(on_sched));

    let mut handles = vec![];
    for (tid, body) in bodies.into_iter().enumerate() {
        let c2 = c.clone();
        handles.push(std::thread::spawn(move || {
            TID.with(|t| t.set(Some(tid)));
            on_sched("start", 0, 0);
            let r = panic::catch_unwind(AssertUnwindSafe(body));
            let mut g = c2.m.lock().unwrap();
            if let Err(e) = r {
                let msg = if let Some(s) = e.downcast_ref::<&str>() {
                    s.to_string()
                } else if let Some(s) = e.downcast_ref::<String>() {
                    s.clone()
                } else {
                    "panic".into()
                };
                g.panicked[tid] = Some(msg);
            }
            g.st[tid] = TState::Finished;
            g.token = None;
            c2.cv.notify_all();
            TID.with(|t| t.set(None));
        }));
    }

    let mut executed = vec![];
    let mut si = 0usize;
    let mut steps = 0usize;
    let mut end = RunEnd::Completed;
    let quiescent = |g: &Shared| {
        g.token.is_none()
            && g.st.iter().all(|s| matches!(s, TState::Parked(..) | TState::Finished))
    };
    loop {
        // wait until every managed thread is parked or finished
        let mut g = c.m.lock().unwrap();
        let deadline = Instant::now() + Duration::from_secs(STUCK_SECS);
        while !quiescent(&g) {
            let now = Instant::now();
            if now >= deadline {
                break;
            }
            let (g2, _) = c.cv.wait_timeout(g, deadline - now).unwrap();
            g = g2;
        }
        if !quiescent(&g) {
            end = RunEnd::Stuck;
            break;
        }
        let live: Vec<usize> = (0..n).filter(|&t| g.st[t] != TState::Finished).collect();
        if live.is_empty() {
            break;
        }
        if steps >= max_steps {
            end = RunEnd::StepLimit;
            break;
        }
        // choose the next thread
        let mut pick = None;
        while si < schedule.len() {
            let t = schedule[si];
            si += 1;
            if t < n && g.st[t] != TState::Finished {
                pick = Some(t);
                break;
            }
        }
        let t = pick.unwrap_or(live[0]);
        let from = match &g.st[t] {
            TState::Parked(s, _, _) => *s,
            _ => "?",
        };
        g.token = Some(t);
        c.cv.notify_all();
        // wait for the step to end
        let deadline = Instant::now() + Duration::from_secs(STUCK_SECS);
        while !quiescent(&g) {
            let now = Instant::now();
            if now >= deadline {
                break;
            }
            let (g2, _) = c.cv.wait_timeout(g, deadline - now).unwrap();
            g = g2;
        }
        if !quiescent(&g) {
            end = RunEnd::Stuck;
            break;
        }
        executed.push(t);
        steps += 1;
        if log_steps {
            let (to, a, b) = match &g.st[t] {
                TState::Parked(s, a, b) => (*s, *a, *b),
                TState::Finished => ("end", 0, 0),
                _ => ("?", 0, 0),
            };
            let sites: Vec<&'static str> = g
                .st
                .iter()
                .map(|s| match s {
                    TState::Parked(x, _, _) => *x,
                    TState::Finished => "end",
                    _ => "?",
                })
                .collect();
            drop(g);
            let obs = observe(&sites);
            let mut e = json!({"op":"step","t":t,"from":from,"to":to,"a":a.to_string(),"b":b.to_string()});
            if let (Some(o), Some(x)) = (e.as_object_mut(), obs.as_object()) {
                for (k, v) in x {
                    o.insert(k.clone(), v.clone());
                }
            }
            c.m.lock().unwrap().log.push(e);
        }
    }
    zipora::verif_hooks::install_sched(None);
    if end == RunEnd::Completed {
        for h in handles {
            let _ = h.join();
        }
    } else {
        // threads may be blocked for ever; release them unscheduled and detach
        let mut g = c.m.lock().unwrap();
        g.token = None;
        drop(g);
        *CTL.lock().unwrap() = None;
        // parked threads wait on the condvar for a token that never comes: leak them; the
        // harness runs such batches in a child process which exits afterwards.
    }
    let g = c.m.lock().unwrap();
    let res = RunResult {
        end,
        steps,
        log: g.log.clone(),
        executed,
        panics: g.panicked.clone(),
    };
    drop(g);
    *CTL.lock().unwrap() = None;
    res
}
