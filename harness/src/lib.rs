//! zv — common machinery of the conformance harnesses.
//!
//! The harness contains NO model of any zipora data structure.  It runs the real
//! objects, *projects* what it observes (values, lengths, digests, order-compressed
//! addresses) into NDJSON events, and TLC judges the events against the TLA+
//! contract specifications under /verif/spec.
use serde_json::{json, Value};
use std::fs::{self, File};
use std::io::{BufWriter, Write};
use std::panic::{self, AssertUnwindSafe};
use std::path::{Path, PathBuf};

pub mod sched;

// ------------------------------------------------------------------ arguments

#[derive(Clone, Debug)]
pub struct Args {
    pub mode: String, // drive | replay | child | witness
    pub seed: u64,
    pub tier: String, // quick | thorough
    pub out: PathBuf, // output directory for trace files
    pub input: Option<PathBuf>,
    pub subject: Option<String>,
    pub extra: Vec<(String, String)>,
}

impl Args {
    pub fn parse() -> Args {
        let mut a = Args {
            mode: "drive".into(),
            seed: 1,
            tier: "quick".into(),
            out: PathBuf::from("."),
            input: None,
            subject: None,
            extra: vec![],
        };
        let v: Vec<String> = std::env::args().skip(1).collect();
        let mut i = 0;
        while i < v.len() {
            let k = v[i].as_str();
            let val = v.get(i + 1).cloned().unwrap_or_default();
            match k {
                "--mode" => a.mode = val,
                "--seed" => a.seed = val.parse().unwrap_or(1),
                "--tier" => a.tier = val,
                "--out" => a.out = PathBuf::from(val),
                "--in" => a.input = Some(PathBuf::from(val)),
                "--subject" => a.subject = Some(val),
                _ if k.starts_with("--") => a.extra.push((k[2..].to_string(), val)),
                _ => {
                    eprintln!("zv: bad argument {k}");
                    std::process::exit(2)
                }
            }
            i += 2;
        }
        a
    }
    pub fn thorough(&self) -> bool {
        self.tier == "thorough"
    }
    pub fn get(&self, k: &str) -> Option<&str> {
        self.extra.iter().find(|(a, _)| a == k).map(|(_, b)| b.as_str())
    }
    pub fn get_u64(&self, k: &str, d: u64) -> u64 {
        self.get(k).and_then(|s| s.parse().ok()).unwrap_or(d)
    }
    /// true when the subject filter (if any) selects `name`
    pub fn wants(&self, name: &str) -> bool {
        match &self.subject {
            None => true,
            Some(s) => s.split(',').any(|p| p == name),
        }
    }
}

// ------------------------------------------------------------------ rng

/// SplitMix64: deterministic, seedable, no external crate.
#[derive(Clone)]
pub struct Rng(pub u64);
impl Rng {
    pub fn new(seed: u64) -> Rng {
        Rng(seed.wrapping_mul(0x9E3779B97F4A7C15) ^ 0xD1B54A32D192ED03)
    }
    pub fn derive(&self, tag: &str) -> Rng {
        let mut h = self.0 ^ 0xcbf29ce484222325;
        for b in tag.bytes() {
            h = (h ^ b as u64).wrapping_mul(0x100000001b3);
        }
        Rng::new(h)
    }
    pub fn next(&mut self) -> u64 {
        self.0 = self.0.wrapping_add(0x9E3779B97F4A7C15);
        let mut z = self.0;
        z = (z ^ (z >> 30)).wrapping_mul(0xBF58476D1CE4E5B9);
        z = (z ^ (z >> 27)).wrapping_mul(0x94D049BB133111EB);
        z ^ (z >> 31)
    }
    pub fn below(&mut self, n: u64) -> u64 {
        if n == 0 {
            0
        } else {
            self.next() % n
        }
    }
    pub fn range(&mut self, lo: u64, hi_incl: u64) -> u64 {
        lo + self.below(hi_incl - lo + 1)
    }
    pub fn chance(&mut self, num: u64, den: u64) -> bool {
        self.below(den) < num
    }
    pub fn pick<'a, T>(&mut self, v: &'a [T]) -> &'a T {
        &v[self.below(v.len() as u64) as usize]
    }
    pub fn bytes(&mut self, n: usize) -> Vec<u8> {
        (0..n).map(|_| self.next() as u8).collect()
    }
    pub fn shuffle<T>(&mut self, v: &mut [T]) {
        for i in (1..v.len()).rev() {
            let j = self.below(i as u64 + 1) as usize;
            v.swap(i, j);
        }
    }
}

// ------------------------------------------------------------------ projections

/// 60-bit FNV-1a style digest, delivered as two 30-bit halves (TLC integers are 32 bit).
/// Used only to *project* large payloads; equality is decided by TLC on (len, h).
pub fn digest(b: &[u8]) -> Value {
    let mut h: u64 = 0xcbf29ce484222325;
    for &x in b {
        h = (h ^ x as u64).wrapping_mul(0x100000001b3);
    }
    h ^= h >> 29;
    h = h.wrapping_mul(0xBF58476D1CE4E5B9);
    h ^= h >> 32;
    json!({"len": b.len(), "h": [((h >> 30) & 0x3fff_ffff), (h & 0x3fff_ffff)]})
}

pub fn bytes_json(b: &[u8]) -> Value {
    Value::Array(b.iter().map(|&x| json!(x)).collect())
}

/// u64 as four 16-bit limbs, most significant first (order/arithmetic in TLA+ via Limbs.tla)
pub fn limbs(x: u64) -> Value {
    json!([(x >> 48) & 0xffff, (x >> 32) & 0xffff, (x >> 16) & 0xffff, x & 0xffff])
}

pub fn opt<T: Into<Value>>(o: Option<T>) -> Value {
    match o {
        None => json!([]),
        Some(v) => json!([v.into()]),
    }
}

// ------------------------------------------------------------------ panic handling

pub fn quiet_panics() {
    panic::set_hook(Box::new(|_| {}));
}

/// Run `f`; a panic of the code under test is data, not a harness failure.
pub fn guard<T>(f: impl FnOnce() -> T) -> Result<T, String> {
    match panic::catch_unwind(AssertUnwindSafe(f)) {
        Ok(v) => Ok(v),
        Err(e) => {
            let msg = if let Some(s) = e.downcast_ref::<&str>() {
                s.to_string()
            } else if let Some(s) = e.downcast_ref::<String>() {
                s.clone()
            } else {
                "panic".to_string()
            };
            Err(msg)
        }
    }
}

// ------------------------------------------------------------------ trace writer

/// NDJSON trace writer.  A trace file is a concatenation of *runs*; each run starts with a
/// `reset` event.  Files are rotated at run boundaries once they exceed `max_events`, so
/// that TLC validates many files in parallel.
pub struct Tracer {
    dir: PathBuf,
    stem: String,
    file_no: usize,
    w: Option<BufWriter<File>>,
    events_in_file: usize,
    pub max_events: usize,
    pub total_events: usize,
    pub runs: usize,
    pub files: Vec<PathBuf>,
}

impl Tracer {
    pub fn new(dir: &Path, stem: &str) -> Tracer {
        fs::create_dir_all(dir).expect("create trace dir");
        Tracer {
            dir: dir.to_path_buf(),
            stem: stem.to_string(),
            file_no: 0,
            w: None,
            events_in_file: 0,
            max_events: 3000,
            total_events: 0,
            runs: 0,
            files: vec![],
        }
    }
    fn open_next(&mut self) {
        self.close();
        let p = self.dir.join(format!("{}-{:04}.ndjson", self.stem, self.file_no));
        self.file_no += 1;
        self.w = Some(BufWriter::new(File::create(&p).expect("create trace file")));
        self.files.push(p);
        self.events_in_file = 0;
    }
    pub fn close(&mut self) {
        if let Some(mut w) = self.w.take() {
            let _ = w.flush();
        }
    }
    /// start a new run; `cfg` is merged into the reset event
    pub fn reset(&mut self, domain: &str, subject: &str, cfg: Value) {
        if self.w.is_none() || self.events_in_file >= self.max_events {
            self.open_next();
        }
        self.runs += 1;
        let mut e = json!({"op":"reset","domain":domain,"subject":subject,"run":self.runs});
        if let (Some(o), Some(c)) = (e.as_object_mut(), cfg.as_object()) {
            for (k, v) in c {
                o.insert(k.clone(), v.clone());
            }
        }
        self.ev(e);
    }
    pub fn ev(&mut self, e: Value) {
        if self.w.is_none() {
            self.open_next();
        }
        let w = self.w.as_mut().unwrap();
        serde_json::to_writer(&mut *w, &e).unwrap();
        w.write_all(b"\n").unwrap();
        self.events_in_file += 1;
        self.total_events += 1;
    }
    pub fn flush(&mut self) {
        if let Some(w) = self.w.as_mut() {
            let _ = w.flush();
        }
    }
}
impl Drop for Tracer {
    fn drop(&mut self) {
        self.close();
    }
}

/// summary written by every harness binary next to its traces: `<out>/summary.json`
pub fn write_summary(dir: &Path, v: &Value) {
    let p = dir.join("summary.json");
    fs::write(p, serde_json::to_vec_pretty(v).unwrap()).expect("write summary");
}

// ------------------------------------------------------------------ child processes

/// Outcome of running a batch in a child process of the harness.
#[derive(Debug, Clone)]
pub enum ChildOutcome {
    Exit(i32),
    Signal(i32),
    Timeout,
}

/// CPU seconds (user + system, all threads) a process has consumed so far, from /proc/<pid>/stat
fn proc_cpu_secs(pid: u32) -> Option<u64> {
    let s = fs::read_to_string(format!("/proc/{pid}/stat")).ok()?;
    // the command name may contain spaces / parentheses: fields are counted after the last ')'
    let rest = &s[s.rfind(')')? + 1..];
    let f: Vec<&str> = rest.split_whitespace().collect();
    // rest starts at field 3 (state): utime = field 14, stime = field 15
    let ut: u64 = f.get(11)?.parse().ok()?;
    let st: u64 = f.get(12)?.parse().ok()?;
    let hz = unsafe { libc::sysconf(libc::_SC_CLK_TCK) }.max(1) as u64;
    Some((ut + st) / hz)
}

/// Re-execute the current binary with `args`, time limit `secs`, address-space limit `as_mb`
/// (0 = unlimited).  stdout/stderr are inherited unless `quiet`.
/// The limit is on the CPU time the child consumed (a loaded or stalled machine must not turn into a
/// "timeout" of the code under test); a child that stays blocked is given up after 4 x `secs` (at least
/// `secs` + 300 s) of wall-clock time.
pub fn run_child(args: &[String], secs: u64, as_mb: u64, quiet: bool) -> ChildOutcome {
    use std::os::unix::process::{CommandExt, ExitStatusExt};
    use std::process::{Command, Stdio};
    let exe = std::env::current_exe().expect("current_exe");
    let mut c = Command::new(exe);
    c.args(args);
    if quiet {
        c.stdout(Stdio::null()).stderr(Stdio::null());
    }
    unsafe {
        c.pre_exec(move || {
            if as_mb > 0 {
                let lim = libc::rlimit {
                    rlim_cur: as_mb * 1024 * 1024,
                    rlim_max: as_mb * 1024 * 1024,
                };
                libc::setrlimit(libc::RLIMIT_AS, &lim);
            }
            let core = libc::rlimit { rlim_cur: 0, rlim_max: 0 };
            libc::setrlimit(libc::RLIMIT_CORE, &core);
            Ok(())
        });
    }
    let mut child = match c.spawn() {
        Ok(ch) => ch,
        Err(_) => return ChildOutcome::Exit(127),
    };
    let start = std::time::Instant::now();
    loop {
        match child.try_wait() {
            Ok(Some(st)) => {
                if let Some(sig) = st.signal() {
                    return ChildOutcome::Signal(sig);
                }
                return ChildOutcome::Exit(st.code().unwrap_or(-1));
            }
            Ok(None) => {
                let wall = start.elapsed().as_secs();
                let cpu = if wall >= secs { proc_cpu_secs(child.id()).unwrap_or(wall) } else { 0 };
                if (wall >= secs && cpu >= secs) || wall >= (4 * secs).max(secs + 300) {
                    let _ = child.kill();
                    let _ = child.wait();
                    return ChildOutcome::Timeout;
                }
                std::thread::sleep(std::time::Duration::from_millis(5));
            }
            Err(_) => return ChildOutcome::Exit(126),
        }
    }
}

/// read a file of JSON lines
pub fn read_ndjson(p: &Path) -> Vec<Value> {
    let s = fs::read_to_string(p).unwrap_or_else(|e| {
        eprintln!("zv: cannot read {}: {e}", p.display());
        std::process::exit(2)
    });
    s.lines()
        .filter(|l| !l.trim().is_empty())
        .map(|l| serde_json::from_str(l).expect("json line"))
        .collect()
}
